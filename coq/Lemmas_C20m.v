(** Lemmas for C20m: the MPI drivers ([Mpi.v]) depend on the rank-aware callback only through its boolean answers;
    hence the four modes of the built-in callback, and mpi_callback's forcing of silent mode on the ranks > 0, are
    indistinguishable in the results (rank states, checkpoints, logs). *)
From Coq Require Import ZArith NArith List Bool Lia.
From HepMC Require Import Num Translated Result Accum VegasPdf Discrete MultiChannel Helper Iter Chkpt Callback Run Mpi
  Lemmas_Run Lemmas_C16 Lemmas_C10 Lemmas_C12 Lemmas_C04 Lemmas_C20 Lemmas_C12m.
Import ListNotations.

Section Generic.
  Context {K : Num}.
  Variables (C S R : Type).
  Variable world : N.
  Variable perm : list N.
  Variable sub_calls : Z -> Z -> Z -> Z.
  Variable usage : N.
  Variable local_iter : S -> N -> N -> N -> res (R * N * N * list (event K)).
  Variable plain_of : R -> plainres K.
  Variable extra_of : R -> list K.
  Variable rebuild : S -> plainres K -> list K -> R.
  Variable addc : C -> R -> N -> C.
  Variable refine : C -> S -> R -> res S.
  Variables cb1 cb2 : N -> C -> bool.
  Hypothesis same_answers : forall r c, cb1 r c = cb2 r c.

  Notation mpi_it cb := (mpi_iteration C S R world perm sub_calls usage local_iter plain_of extra_of rebuild addc cb refine).
  Notation mpi_lp cb := (mpi_loop C S R world perm sub_calls usage local_iter plain_of extra_of rebuild addc cb refine).

  (* no hypothesis on the world size, the reduction order, the rank states: also the undefined results coincide *)
  Lemma mpi_iteration_ext calls sts : mpi_it cb1 calls sts = mpi_it cb2 calls sts.
  Proof.
    unfold mpi_iteration.
    destruct (mapM_idx (local_part C S R world sub_calls usage local_iter calls) 0 sts) as [locals|code]; cbn [bind]; [|reflexivity].
    destruct (allreduce (add K) perm _) as [tbuf|code]; cbn [bind]; [|reflexivity].
    destruct (allreduce N.add perm _) as [nbuf|code]; cbn [bind]; [|reflexivity].
    match goal with |- bind (mapM_idx ?F1 _ _) _ = bind (mapM_idx ?F2 _ _) _ => rewrite (mapM_idx_ext_in F1 F2) end; [reflexivity|].
    intros k [st [[[lr g3] i'] e]] _.
    destruct (unpack (plain_of lr) (length (extra_of lr)) calls tbuf nbuf) as [[pl ex]|code]; cbn [bind]; [|reflexivity].
    rewrite same_answers. reflexivity.
  Qed.

  Lemma mpi_loop_ext cs : forall sts log, mpi_lp cb1 cs sts log = mpi_lp cb2 cs sts log.
  Proof.
    induction cs as [|calls cs IH]; intros sts log; cbn [mpi_loop]; [reflexivity|].
    rewrite mpi_iteration_ext. destruct (mpi_it cb2 calls sts) as [[[sts1 ls] go]|code]; cbn [bind]; [|reflexivity].
    destruct go; [apply IH|reflexivity].
  Qed.
End Generic.

Section Drivers.
  Context {K : Num}.
  Context (L : Libm K).
  Variable strm : N -> K.
  Variable ps : list (dparams K).
  Variable f : integrand K.
  Variable mp : mcmap K.
  Variable world : N.
  Variable perm : list N.

  Lemma mpi_plain_run_ext (cb1 cb2 : N -> pchk K -> bool) : (forall r c, cb1 r c = cb2 r c) ->
    forall d cs c idx, mpi_plain_run strm ps f world perm d cb1 cs c idx = mpi_plain_run strm ps f world perm d cb2 cs c idx.
  Proof.
    intros E d cs c idx. unfold mpi_plain_run. destruct (base_gen c) as [g|code]; cbn [bind]; [|reflexivity].
    apply mpi_loop_ext. exact E.
  Qed.

  Lemma mpi_vegas_run_ext (cb1 cb2 : N -> vchk K -> bool) : (forall r c, cb1 r c = cb2 r c) ->
    forall d cs c idx, mpi_vegas_run L strm ps f world perm d cb1 cs c idx = mpi_vegas_run L strm ps f world perm d cb2 cs c idx.
  Proof.
    intros E d cs c idx. unfold mpi_vegas_run. cbv zeta.
    destruct (base_gen (vc_base (vchk_dimensions c d))) as [g|code]; cbn [bind]; [|reflexivity].
    destruct (vchk_pdf L (vchk_dimensions c d)) as [p|code]; cbn [bind]; [|reflexivity].
    apply mpi_loop_ext. exact E.
  Qed.

  Lemma mpi_mc_run_ext (cb1 cb2 : N -> mchk K -> bool) : (forall r c, cb1 r c = cb2 r c) ->
    forall d channels cs c idx, mpi_mc_run L strm ps f world perm mp d channels cb1 cs c idx
                              = mpi_mc_run L strm ps f world perm mp d channels cb2 cs c idx.
  Proof.
    intros E d channels cs c idx. unfold mpi_mc_run. cbv zeta.
    destruct (base_gen (mc_base (mchk_channels c channels))) as [g|code]; cbn [bind]; [|reflexivity].
    destruct (mchk_weights L (mchk_channels c channels)) as [ws|code]; cbn [bind]; [|reflexivity].
    apply mpi_loop_ext. exact E.
  Qed.

  Lemma c20m_run_answers_only :
    (forall cb1 cb2 : N -> pchk K -> bool, (forall r c, cb1 r c = cb2 r c) ->
       forall d cs c idx, mpi_plain_run strm ps f world perm d cb1 cs c idx = mpi_plain_run strm ps f world perm d cb2 cs c idx) /\
    (forall cb1 cb2 : N -> vchk K -> bool, (forall r c, cb1 r c = cb2 r c) ->
       forall d cs c idx, mpi_vegas_run L strm ps f world perm d cb1 cs c idx = mpi_vegas_run L strm ps f world perm d cb2 cs c idx) /\
    (forall cb1 cb2 : N -> mchk K -> bool, (forall r c, cb1 r c = cb2 r c) ->
       forall d channels cs c idx, mpi_mc_run L strm ps f world perm mp d channels cb1 cs c idx
                                 = mpi_mc_run L strm ps f world perm mp d channels cb2 cs c idx).
  Proof. split; [exact mpi_plain_run_ext|split; [exact mpi_vegas_run_ext|exact mpi_mc_run_ext]]. Qed.
End Drivers.

(** ** hep::mpi_callback: the built-in callback of C20 in mode [m] on rank 0 and forced into silent mode on every
    other rank (only the first component, the decision, is returned to the integrator) *)
Definition mpi_mode (m : cbmode) (r : N) : cbmode := if N.eqb r 0 then m else Silent.
Definition mpi_callback {C : Type} (decision : C -> bool) (m : cbmode) (r : N) (c : C) : cb_effects C :=
  builtin_callback decision (mpi_mode m r) c.

Section Modes.
  Context {K : Num}.
  Definition mpi_cb_plain (m : cbmode) (target : K) (r : N) (c : pchk K) : bool := ce_continue (mpi_callback (cb_plain target) m r c).
  Definition mpi_cb_vegas (m : cbmode) (target : K) (r : N) (c : vchk K) : bool := ce_continue (mpi_callback (cb_vegas target) m r c).
  Definition mpi_cb_mc (m : cbmode) (target : K) (r : N) (c : mchk K) : bool := ce_continue (mpi_callback (cb_mc target) m r c).

  (* the decision of mpi_callback is C20's mode-free decision on every rank: rank independent; ranks > 0
     neither print nor write; rank 0 behaves like the serial callback in mode m *)
  Lemma c20m_mpi_callback (m : cbmode) (target : K) :
    (forall r c, mpi_cb_plain m target r c = cb_plain target c) /\
    (forall r c, mpi_cb_vegas m target r c = cb_vegas target c) /\
    (forall r c, mpi_cb_mc m target r c = cb_mc target c) /\
    cb_rank_independent (mpi_cb_plain m target) /\ cb_rank_independent (mpi_cb_vegas m target) /\
    cb_rank_independent (mpi_cb_mc m target) /\
    (forall (C : Type) (dec : C -> bool) r c, r <> 0%N ->
       ce_prints (mpi_callback dec m r c) = false /\ ce_writes (mpi_callback dec m r c) = None) /\
    (forall (C : Type) (dec : C -> bool) c, mpi_callback dec m 0 c = builtin_callback dec m c).
  Proof.
    split; [reflexivity|]. split; [reflexivity|]. split; [reflexivity|].
    split; [intros r r' c; reflexivity|]. split; [intros r r' c; reflexivity|]. split; [intros r r' c; reflexivity|].
    split; [|reflexivity]. intros C dec r c Hr. unfold mpi_callback, mpi_mode.
    destruct (N.eqb_spec r 0) as [E|_]; [contradiction|]. split; reflexivity.
  Qed.
End Modes.

Section RunModes.
  Context {K : Num}.
  Context (L : Libm K).
  Variable strm : N -> K.
  Variable ps : list (dparams K).
  Variable f : integrand K.
  Variable mp : mcmap K.
  Variable world : N.
  Variable perm : list N.

  (* the run of all ranks is the same in all four modes, and the same as with the bare decision on every rank *)
  Lemma c20m_run_mode_independent (m1 m2 : cbmode) (target : K) :
    (forall d cs c idx, mpi_plain_run strm ps f world perm d (mpi_cb_plain m1 target) cs c idx
                      = mpi_plain_run strm ps f world perm d (mpi_cb_plain m2 target) cs c idx) /\
    (forall d cs c idx, mpi_vegas_run L strm ps f world perm d (mpi_cb_vegas m1 target) cs c idx
                      = mpi_vegas_run L strm ps f world perm d (mpi_cb_vegas m2 target) cs c idx) /\
    (forall d channels cs c idx, mpi_mc_run L strm ps f world perm mp d channels (mpi_cb_mc m1 target) cs c idx
                               = mpi_mc_run L strm ps f world perm mp d channels (mpi_cb_mc m2 target) cs c idx).
  Proof.
    split; [|split]; intros.
    - apply mpi_plain_run_ext. intros r c0. reflexivity.
    - apply mpi_vegas_run_ext. intros r c0. reflexivity.
    - apply mpi_mc_run_ext. intros r c0. reflexivity.
  Qed.

  Lemma c20m_run_builtin_answers (target : K) :
    (forall cb, (forall r c, cb r c = cb_plain target c) ->
       forall d cs c idx, mpi_plain_run strm ps f world perm d cb cs c idx
                        = mpi_plain_run strm ps f world perm d (fun _ => cb_plain target) cs c idx) /\
    (forall cb, (forall r c, cb r c = cb_vegas target c) ->
       forall d cs c idx, mpi_vegas_run L strm ps f world perm d cb cs c idx
                        = mpi_vegas_run L strm ps f world perm d (fun _ => cb_vegas target) cs c idx) /\
    (forall cb, (forall r c, cb r c = cb_mc target c) ->
       forall d channels cs c idx, mpi_mc_run L strm ps f world perm mp d channels cb cs c idx
                                 = mpi_mc_run L strm ps f world perm mp d channels (fun _ => cb_mc target) cs c idx).
  Proof.
    split; [|split]; intros cb E; intros.
    - apply mpi_plain_run_ext. exact E.
    - apply mpi_vegas_run_ext. exact E.
    - apply mpi_mc_run_ext. exact E.
  Qed.
End RunModes.

(** ** non-vacuity: C12m's example run (C04's PLAIN run on 3 ranks with the built-in decision, target 1/8) under
    mpi_callback in verbose-write mode is the run with the bare decision, which is defined and stops after two of
    four iterations ([ex12m_check], computed through booleans and lengths only) *)
From HepMC Require Import NumB.
Lemma c20m_example :
  (forall r c, mpi_cb_plain VerboseWrite ex12m_target r c = cb_plain ex12m_target c) /\
  mpi_plain_run ex04_strm [] ex04_f 3 [2; 0; 1]%N 2 (mpi_cb_plain VerboseWrite ex12m_target) [4; 5; 7; 4]%N (base_init 0) 0
    = ex12m_run ex12m_target /\
  ex12m_check = true /\
  ce_prints (mpi_callback (cb_plain ex12m_target) VerboseWrite 0 (base_init 0)) = true /\
  ce_prints (mpi_callback (cb_plain ex12m_target) VerboseWrite 2 (base_init 0)) = false.
Proof.
  split; [intros r c; reflexivity|]. split.
  - unfold ex12m_run. apply mpi_plain_run_ext. intros r c. reflexivity.
  - split; [exact (proj1 c12m_example)|]. split; reflexivity.
Qed.
