(** Lemmas for C04s (supplement to C04): over the reals the MPI drivers compute exactly what the serial
    integrators compute - main result, every distribution bin, the adjustment data, hence the refined grid /
    weights and, by induction over the calls list, the whole checkpoint.

    Method: every call step of the three integrators is ADDITIVE over the reals: started from an accumulator
    state [A + t] (A arbitrary, t with zero Kahan compensations) it behaves exactly as started from [t] - same
    definedness, same UB code - and ends in [A + t'].  The serial iteration is the chain of the ranks' blocks
    (C16 / C04_positions_tile), so its accumulator is the sum of the ranks' accumulators; the reduction over the
    reals in any order is that sum; [unpack] inverts [pack]. *)
From Coq Require Import ZArith NArith List Bool Lia Permutation Reals Lra.
From HepMC Require Import Num NumR Translated Result Accum VegasPdf Discrete MultiChannel Iter Chkpt Callback Run Mpi
  Lemmas_Run Lemmas_C16 Lemmas_C10 Lemmas_C04 Lemmas_C19.
Import ListNotations.

(** ** [vzip]: element-wise combination of two lists *)
Section Vzip.
  Context {A : Type}.
  Variable f : A -> A -> A.

  Lemma vzip_cons x a y b : vzip f (x :: a) (y :: b) = f x y :: vzip f a b.
  Proof. reflexivity. Qed.

  Lemma vzip_nth_error : forall a b i,
    nth_error (vzip f a b) i = match nth_error a i, nth_error b i with Some x, Some y => Some (f x y) | _, _ => None end.
  Proof.
    induction a as [|x a IH]; intros [|y b] [|i]; cbn [nth_error]; try reflexivity.
    - destruct (nth_error a i); reflexivity.
    - rewrite vzip_cons. cbn [nth_error]. apply IH.
  Qed.

  Lemma vzip_set_nth : forall a b i x y, nth_error a i = Some x ->
    set_nth (vzip f a b) i (f x y) = vzip f a (set_nth b i y).
  Proof.
    induction a as [|x0 a IH]; intros [|y0 b] [|i] x y H; cbn [nth_error] in H; try discriminate; try reflexivity.
    - injection H as ->. reflexivity.
    - rewrite vzip_cons. cbn [set_nth]. rewrite vzip_cons. f_equal. apply IH. exact H.
  Qed.

  Lemma vzip_app : forall a a' b b', length a = length a' -> vzip f (a ++ b) (a' ++ b') = vzip f a a' ++ vzip f b b'.
  Proof.
    induction a as [|x a IH]; intros [|y a'] b b' H; try discriminate; [reflexivity|].
    cbn [app]. rewrite !vzip_cons. cbn [app]. f_equal. apply IH. cbn in H. lia.
  Qed.

  Lemma vzip_len : forall a b, length a = length b -> length (vzip f a b) = length b.
  Proof. intros a b H. rewrite vzip_length by exact H. exact H. Qed.

  (* a neutral left operand *)
  Lemma vzip_neutral_l (e : A) : forall n l, length l = n -> (forall x, In x l -> f e x = x) -> vzip f (repeat e n) l = l.
  Proof.
    induction n as [|n IH]; intros [|x l] H Hn; try discriminate; [reflexivity|].
    cbn [repeat]. rewrite vzip_cons, Hn by (left; reflexivity). f_equal. apply IH; [cbn in H; lia|].
    intros y Hy. apply Hn. right. exact Hy.
  Qed.

  Lemma vzip_neutral_r (e : A) : forall n l, length l = n -> (forall x, In x l -> f x e = x) -> vzip f l (repeat e n) = l.
  Proof.
    induction n as [|n IH]; intros [|x l] H Hn; try discriminate; [reflexivity|].
    cbn [repeat]. rewrite vzip_cons, Hn by (left; reflexivity). f_equal. apply IH; [cbn in H; lia|].
    intros y Hy. apply Hn. right. exact Hy.
  Qed.
End Vzip.

Lemma Forall_set_nth {A} (P : A -> Prop) : forall l i x, Forall P l -> P x -> Forall P (set_nth l i x).
Proof.
  induction l as [|y l IH]; intros [|i] x H Hx; cbn [set_nth]; try exact H.
  - inversion H; subst. constructor; assumption.
  - inversion H; subst. constructor; [assumption|]. apply IH; assumption.
Qed.

Lemma mapM_idx_all_Ok {A B} (f : N -> A -> res B) l i :
  (forall k a, nth_error l k = Some a -> exists b, f (i + N.of_nat k)%N a = Ok b) -> exists bs, mapM_idx f i l = Ok bs.
Proof.
  intros H. destruct (mapM_idx f i l) as [bs|c] eqn:E; [exists bs; reflexivity|].
  apply mapM_idx_UB in E as (k & a & E1 & E2). destruct (H k a E1) as (b & Eb). congruence.
Qed.

(** ** cells over the reals *)
Local Open Scope R_scope.
Notation cellR := (cell NumR).

Definition cadd (a c : cellR) : cellR :=
  mk_cell (K:=NumR) (c_sum a + c_sum c) (c_sumsq a + c_sumsq c) 0 (c_nz a + c_nz c)%N (c_fin a + c_fin c)%N.
Definition cz (c : cellR) : Prop := c_comp c = 0.
Definition dz (ds : list (list cellR)) : Prop := Forall (Forall cz) ds.
Definition dsum (A D : list (list cellR)) : list (list cellR) := vzip (vzip cadd) A D.

Lemma cz_cell0 : cz (cell0 (K:=NumR)).
Proof. reflexivity. Qed.
Lemma cz_cadd a c : cz (cadd a c).
Proof. reflexivity. Qed.

Lemma cell_eq (a b : cellR) : c_sum a = c_sum b -> c_sumsq a = c_sumsq b -> c_comp a = c_comp b -> c_nz a = c_nz b -> c_fin a = c_fin b -> a = b.
Proof. destruct a, b. cbn. intros. subst. reflexivity. Qed.

Lemma cell_add_R (c : cellR) (v : R) : cz c ->
  cell_add c v = mk_cell (K:=NumR) (c_sum c + v) (c_sumsq c + v * v) 0 (c_nz c + 1)%N (c_fin c + 1)%N.
Proof.
  intros Hc. unfold cz in Hc. unfold cell_add, accumulate. cbn [sub add mul NumR]. rewrite Hc.
  apply cell_eq; cbn [c_sum c_sumsq c_comp c_nz c_fin]; try reflexivity; change (T NumR) with R; ring.
Qed.

Lemma cell_add_cadd (a c : cellR) v : cz c -> cell_add (cadd a c) v = cadd a (cell_add c v) /\ cz (cell_add c v).
Proof.
  intros Hc. rewrite (cell_add_R c v Hc), (cell_add_R (cadd a c) v (cz_cadd a c)). split; [|reflexivity].
  unfold cadd. apply cell_eq; cbn [c_sum c_sumsq c_comp c_nz c_fin]; try reflexivity; try lia; change (T NumR) with R; ring.
Qed.

Lemma cadd_cell0_r (a : cellR) : cz a -> cadd a cell0 = a.
Proof.
  intros Ha. unfold cz in Ha. unfold cadd, cell0. apply cell_eq; cbn [c_sum c_sumsq c_comp c_nz c_fin zero NumR]; try lia; try (symmetry; exact Ha);
    change (T NumR) with R; ring.
Qed.
Lemma cadd_cell0_l (a : cellR) : cz a -> cadd cell0 a = a.
Proof.
  intros Ha. unfold cz in Ha. unfold cadd, cell0. apply cell_eq; cbn [c_sum c_sumsq c_comp c_nz c_fin zero NumR]; try lia; try (symmetry; exact Ha);
    change (T NumR) with R; ring.
Qed.

Lemma lens_nth_error (A D : list (list cellR)) i : lens A = lens D ->
  match nth_error D i with
  | Some d => exists a, nth_error A i = Some a /\ length a = length d
  | None => nth_error A i = None
  end.
Proof.
  intros H. apply (f_equal (fun l => nth_error l i)) in H. unfold lens in H. rewrite !nth_error_map in H.
  destruct (nth_error D i) as [d|], (nth_error A i) as [a|]; cbn in H; try discriminate; [|reflexivity].
  injection H as H. exists a. auto.
Qed.

Lemma len_nth_error {X} (a d : list X) i : length a = length d ->
  match nth_error d i with Some _ => exists x, nth_error a i = Some x | None => nth_error a i = None end.
Proof.
  intros H. destruct (nth_error d i) eqn:E.
  - assert (Hi : (i < length a)%nat) by (rewrite H; apply nth_error_Some; congruence).
    destruct (nth_error a i) eqn:E2; [eauto|]. apply nth_error_None in E2. lia.
  - apply nth_error_None in E. apply nth_error_None. lia.
Qed.

Lemma lens_dsum A D : lens A = lens D -> lens (dsum A D) = lens D.
Proof.
  revert D. induction A as [|a A IH]; intros [|d D] H; try discriminate; [reflexivity|].
  unfold dsum. rewrite vzip_cons. cbn [lens map] in *. injection H as H1 H2. f_equal.
  - apply vzip_len. exact H1.
  - apply IH. exact H2.
Qed.

Lemma dz_dsum A D : dz (dsum A D).
Proof.
  revert D. induction A as [|a A IH]; intros [|d D]; try constructor.
  - clear. revert d. induction a as [|x a IH]; intros [|y d]; constructor; [apply cz_cadd|apply IH].
  - apply IH.
Qed.

(** ** the distribution accumulators: every operation commutes with adding a fixed offset [A] *)
Definition dsim (F : list (list cellR) -> res (list (list cellR))) : Prop :=
  forall A D, lens A = lens D -> dz D ->
    match F D with
    | Ok D' => F (dsum A D) = Ok (dsum A D') /\ dz D' /\ lens D' = lens D
    | UB c => F (dsum A D) = UB c
    end.

Lemma dsim_ret : dsim (fun ds => Ok ds).
Proof. intros A D HL HZ. auto. Qed.

Lemma dsim_bind F G : dsim F -> dsim G -> dsim (fun ds => do ds' <- F ds; G ds').
Proof.
  intros HF HG A D HL HZ. specialize (HF A D HL HZ). destruct (F D) as [D1|c].
  - destruct HF as (E & Z1 & L1). rewrite E. cbn [bind]. specialize (HG A D1 (eq_trans HL (eq_sym L1)) Z1).
    destruct (G D1) as [D2|c2]; [|exact HG]. destruct HG as (E2 & Z2 & L2). split; [exact E2|]. split; [exact Z2|congruence].
  - rewrite HF. reflexivity.
Qed.

Lemma upd_bin_dsim idx bin v : dsim (fun ds => upd_bin ds idx bin v).
Proof.
  intros A D HL HZ. unfold upd_bin, getN, nthN, dsum. rewrite vzip_nth_error.
  pose proof (lens_nth_error A D (N.to_nat idx) HL) as HA.
  destruct (nth_error D (N.to_nat idx)) as [d|] eqn:Ed.
  - destruct HA as (a & Ea & La). rewrite Ea. cbn [bind]. rewrite vzip_nth_error.
    pose proof (len_nth_error a d (N.to_nat bin) La) as Ha.
    assert (Hzd : Forall cz d) by (unfold dz in HZ; rewrite Forall_forall in HZ; apply HZ; eapply nth_error_In; exact Ed).
    destruct (nth_error d (N.to_nat bin)) as [c|] eqn:Ec.
    + destruct Ha as (ca & Eca). rewrite Eca. cbn [bind].
      assert (Hzc : cz c) by (rewrite Forall_forall in Hzd; apply Hzd; eapply nth_error_In; exact Ec).
      destruct (cell_add_cadd ca c v Hzc) as [E1 E2]. rewrite E1. unfold setN.
      rewrite (vzip_set_nth cadd a d (N.to_nat bin) ca _ Eca), (vzip_set_nth (vzip cadd) A D (N.to_nat idx) a _ Ea).
      split; [reflexivity|]. split.
      * apply Forall_set_nth; [exact HZ|]. apply Forall_set_nth; assumption.
      * eapply lens_set_nth; [exact Ed|]. apply set_nth_len.
    + rewrite Ha. destruct (nth_error a (N.to_nat bin)); reflexivity.
  - rewrite HA. reflexivity.
Qed.

Section Fills.
  Variable ps : list (dparams NumR).

  Lemma fill1d_dsim idx x v : dsim (fun ds => fill1d ps ds idx x v).
  Proof.
    intros A D HL HZ. unfold fill1d. destruct (negb (isfinite NumR v)); [apply dsim_ret; assumption|].
    destruct (getN 10 ps idx) as [p|c]; cbn [bind]; [|reflexivity].
    destruct (ltb NumR _ _); [apply dsim_ret; assumption|].
    destruct (negb _); [apply dsim_ret; assumption|].
    destruct (to_index 13 _) as [bx|c]; cbn [bind]; [|reflexivity].
    apply upd_bin_dsim; assumption.
  Qed.

  Lemma fill2d_dsim idx x y v : dsim (fun ds => fill2d ps ds idx x y v).
  Proof.
    intros A D HL HZ. unfold fill2d. destruct (negb (isfinite NumR v)); [apply dsim_ret; assumption|].
    destruct (getN 10 ps idx) as [p|c]; cbn [bind]; [|reflexivity].
    destruct (ltb NumR _ _); [apply dsim_ret; assumption|].
    destruct (ltb NumR _ _); [apply dsim_ret; assumption|].
    destruct (negb _); [apply dsim_ret; assumption|].
    destruct (to_index 13 _) as [bx|c]; cbn [bind]; [|reflexivity].
    destruct (negb _); [apply dsim_ret; assumption|].
    destruct (to_index 14 _) as [by_|c]; cbn [bind]; [|reflexivity].
    apply upd_bin_dsim; assumption.
  Qed.

  Lemma do_fills_dsim w fs : dsim (fun ds => do_fills ps w ds fs).
  Proof.
    induction fs as [|fl fs IH]; [exact dsim_ret|].
    cbn [do_fills]. apply (dsim_bind (fun ds => do_fill ps w ds fl) (fun ds => do_fills ps w ds fs)); [|exact IH].
    destruct fl; cbn [do_fill]; [apply fill1d_dsim|apply fill2d_dsim].
  Qed.
End Fills.

(** ** the whole accumulator *)
Definition aplus (A X : accst NumR) : accst NumR :=
  mk_accst (cadd (a_main A) (a_main X)) (dsum (a_dists A) (a_dists X)).
Definition accz (a : accst NumR) : Prop := cz (a_main a) /\ dz (a_dists a).

Lemma accz_aplus A X : accz (aplus A X).
Proof. split; [apply cz_cadd|apply dz_dsum]. Qed.

Lemma invoke_main_sum (a c : cellR) (v w : R) : cz c ->
  invoke_main (K:=NumR) (cadd a c) v w = (cadd a (fst (invoke_main (K:=NumR) c v w)), snd (invoke_main (K:=NumR) c v w)) /\
  cz (fst (invoke_main (K:=NumR) c v w)).
Proof.
  intros Hc. unfold invoke_main. destruct (neqb _ _); cbn [isfinite NumR fst snd]; [|split; [reflexivity|exact Hc]].
  destruct (cell_add_cadd a c (mul NumR v w) Hc) as [E1 E2]. rewrite E1. split; [reflexivity|exact E2].
Qed.

Lemma finish_call_weight ps (s : itst NumR) o o' r : o_weight o = o_weight o' -> finish_call ps s o r = finish_call ps s o' r.
Proof. unfold finish_call. intros ->. reflexivity. Qed.

Lemma finish_call_sum ps A (s t : itst NumR) o r :
  it_acc s = aplus A (it_acc t) -> lens (a_dists A) = lens (a_dists (it_acc t)) -> accz (it_acc t) ->
  match finish_call ps t o r with
  | Ok (a', v) => finish_call ps s o r = Ok (aplus A a', v) /\ accz a' /\ lens (a_dists a') = lens (a_dists (it_acc t))
  | UB c => finish_call ps s o r = UB c
  end.
Proof.
  intros Hs HL [Hzm Hzd]. unfold finish_call. rewrite Hs. cbn [aplus a_dists a_main].
  pose proof (do_fills_dsim ps (o_weight o) (i_fills r) (a_dists A) (a_dists (it_acc t)) HL Hzd) as HF. cbv beta in HF.
  destruct (do_fills ps (o_weight o) (a_dists (it_acc t)) (i_fills r)) as [ds|c]; [|rewrite HF; reflexivity].
  destruct HF as (E & Z & L). rewrite E. cbn [bind].
  destruct (invoke_main_sum (a_main A) (a_main (it_acc t)) (i_val r) (o_weight o) Hzm) as [E1 E2]. rewrite E1.
  destruct (invoke_main (a_main (it_acc t)) (i_val r) (o_weight o)) as [m v]. cbn [fst snd] in *.
  split; [reflexivity|]. split; [split; assumption|exact L].
Qed.

(** ** the adjustment data *)
Lemma add_squares_sum bins (sq : R) : forall bs (J adj : list R) j, length J = length adj ->
  match add_squares (K:=NumR) adj bins j bs sq with
  | Ok adj' => add_squares (K:=NumR) (vzip Rplus J adj) bins j bs sq = Ok (vzip Rplus J adj') /\ length adj' = length adj
  | UB c => add_squares (K:=NumR) (vzip Rplus J adj) bins j bs sq = UB c
  end.
Proof.
  induction bs as [|b bs IH]; intros J adj j HL; cbn [add_squares]; [auto|].
  unfold getN, nthN. change (T NumR) with R. rewrite vzip_nth_error.
  pose proof (len_nth_error J adj (N.to_nat (j * bins + b)) HL) as HJ.
  destruct (nth_error adj (N.to_nat (j * bins + b))) as [old|] eqn:Eo.
  - destruct HJ as (x & Ex). rewrite Ex. cbn [bind add NumR].
    replace (x + old + sq) with (x + (old + sq)) by ring. unfold setN.
    rewrite (vzip_set_nth Rplus J adj _ x (old + sq) Ex).
    specialize (IH J (set_nth adj (N.to_nat (j * bins + b)) (old + sq)) (j + 1)%N).
    rewrite set_nth_len in IH. specialize (IH HL).
    destruct (add_squares (K:=NumR) (set_nth adj (N.to_nat (j * bins + b)) (old + sq)) bins (j + 1) bs sq); exact IH.
  - rewrite HJ. destruct (nth_error J _); reflexivity.
Qed.

Lemma add_dens_sum (sq : R) : forall (J adj dens : list R), length J = length adj ->
  match add_dens (K:=NumR) adj dens sq with
  | Ok adj' => add_dens (K:=NumR) (vzip Rplus J adj) dens sq = Ok (vzip Rplus J adj') /\ length adj' = length adj
  | UB c => add_dens (K:=NumR) (vzip Rplus J adj) dens sq = UB c
  end.
Proof.
  induction J as [|x J IH]; intros [|a adj] dens HL; try discriminate; [cbn; auto|].
  rewrite vzip_cons. cbn [add_dens]. destruct dens as [|d dens]; [reflexivity|].
  specialize (IH adj dens ltac:(cbn in HL; lia)).
  destruct (add_dens (K:=NumR) adj dens sq) as [rest|c]; [|rewrite IH; reflexivity].
  destruct IH as [E L]. rewrite E. cbn [bind]. rewrite vzip_cons. cbn [add mul NumR length].
  split; [f_equal; f_equal; ring|rewrite L; reflexivity].
Qed.

(** ** simulation: a state [s] whose accumulators are [A + t], [J + t] steps exactly like [t] *)
Record tinv (sh : list nat) (al : nat) (t : itst NumR) : Prop := mk_tinv {
  ti_z : accz (it_acc t); ti_sh : lens (a_dists (it_acc t)) = sh; ti_al : length (it_adj t) = al }.

Definition sim (sh : list nat) (al : nat) (A : accst NumR) (J : list R) (s t : itst NumR) : Prop :=
  it_g s = it_g t /\ it_acc s = aplus A (it_acc t) /\ it_adj s = vzip Rplus J (it_adj t) /\
  lens (a_dists A) = sh /\ length J = al /\ tinv sh al t.

Definition step_sim (step : itst NumR -> res (itst NumR)) (usage : N) (sh : list nat) (al : nat) : Prop :=
  forall A J s t, sim sh al A J s t ->
    match step t with
    | Ok t' => it_g t' = (it_g t + usage)%N /\ exists s', step s = Ok s' /\ sim sh al A J s' t'
    | UB c => step s = UB c
    end.

(** the channel map's answers do not depend on how many calls its copy has received *)
Definition map_ignores_counter (mp : mcmap NumR) : Prop :=
  (forall i i' ch us en, m_coords mp i ch us en = m_coords mp i' ch us en) /\
  (forall i i' ch us co en, m_dens mp i ch us co en = m_dens mp i' ch us co en).

Section Steps.
  Variable strm : N -> NumR.
  Variable ps : list (dparams NumR).
  Variable f : integrand NumR.
  Hypothesis Hf : ignores_counter f.

  Lemma f_noidx i i' pt w bs ch co : f (mk_obs i pt w bs ch co) = f (mk_obs i' pt w bs ch co).
  Proof. rewrite (Hf (mk_obs i pt w bs ch co)), (Hf (mk_obs i' pt w bs ch co)). reflexivity. Qed.

  Lemma plain_step_sim d sh : step_sim (plain_step strm ps f d) (N.of_nat d) sh 0.
  Proof.
    intros A J s t (Hg & Ha & Hj & HA & HJ & [Hz Hsh Hal]). unfold plain_step. rewrite Hg.
    rewrite (f_noidx (it_idx s) (it_idx t)).
    rewrite (finish_call_weight ps s (mk_obs (it_idx s) (draws strm (it_g t) d) (one NumR) [] 0 [])
               (mk_obs (it_idx t) (draws strm (it_g t) d) (one NumR) [] 0 [])) by reflexivity.
    pose proof (finish_call_sum ps A s t (mk_obs (it_idx t) (draws strm (it_g t) d) (one NumR) [] 0 [])
                  (f (mk_obs (it_idx t) (draws strm (it_g t) d) (one NumR) [] 0 [])) Ha (eq_trans HA (eq_sym Hsh)) Hz) as HF.
    destruct (finish_call ps t _ _) as [[a' v]|c]; [|rewrite HF; reflexivity].
    destruct HF as (E & Z & L). rewrite E. cbn [bind]. split; [reflexivity|]. eexists. split; [reflexivity|].
    unfold sim. cbn [it_g it_acc it_adj]. split; [reflexivity|]. split; [reflexivity|]. split; [exact Hj|].
    split; [exact HA|]. split; [exact HJ|]. constructor; cbn [it_acc it_adj]; [exact Z|exact (eq_trans L Hsh)|exact Hal].
  Qed.

  Lemma vegas_step_sim p sh al : step_sim (vegas_step strm ps f p) (pdf_dims p) sh al.
  Proof.
    intros A J s t (Hg & Ha & Hj & HA & HJ & [Hz Hsh Hal]). unfold vegas_step. rewrite Hg.
    destruct (icdf p (draws strm (it_g t) (N.to_nat (pdf_dims p)))) as [[[xs bs] w]|c]; cbn [bind]; [|reflexivity].
    rewrite (f_noidx (it_idx s) (it_idx t)).
    rewrite (finish_call_weight ps s (mk_obs (it_idx s) xs w bs 0 []) (mk_obs (it_idx t) xs w bs 0 [])) by reflexivity.
    pose proof (finish_call_sum ps A s t (mk_obs (it_idx t) xs w bs 0 []) (f (mk_obs (it_idx t) xs w bs 0 []))
                  Ha (eq_trans HA (eq_sym Hsh)) Hz) as HF.
    destruct (finish_call ps t _ _) as [[a' v]|c]; [|rewrite HF; reflexivity].
    destruct HF as (E & Z & L). rewrite E. cbn [bind]. rewrite Hj.
    pose proof (add_squares_sum (pdf_bins p) (mul NumR v v) bs J (it_adj t) 0%N (eq_trans HJ (eq_sym Hal))) as HQ.
    destruct (add_squares (K:=NumR) (it_adj t) (pdf_bins p) 0 bs (mul NumR v v)) as [adj'|c]; [|rewrite HQ; reflexivity].
    destruct HQ as [EQ LQ]. rewrite EQ. cbn [bind it_g]. split; [rewrite N2Nat.id; reflexivity|]. eexists. split; [reflexivity|].
    unfold sim. cbn [it_g it_acc it_adj]. split; [reflexivity|]. split; [reflexivity|]. split; [reflexivity|].
    split; [exact HA|]. split; [exact HJ|]. constructor; cbn [it_acc it_adj]; [exact Z|exact (eq_trans L Hsh)|exact (eq_trans LQ Hal)].
  Qed.

  Variable mp : mcmap NumR.
  Hypothesis Hmp : map_ignores_counter mp.

  Lemma mc_step_sim d ws cum en sh al : step_sim (mc_step strm ps f mp d ws cum en) (N.of_nat d + 1) sh al.
  Proof.
    intros A J s t (Hg & Ha & Hj & HA & HJ & [Hz Hsh Hal]). unfold mc_step. rewrite Hg.
    rewrite (proj1 Hmp (it_idx s) (it_idx t)), (proj2 Hmp (it_idx s) (it_idx t)).
    destruct (m_dens mp (it_idx t) _ _ _ _) as [jac dens].
    destruct (mc_weight jac ws dens) as [w|c]; cbn [bind]; [|reflexivity].
    set (us := draws strm (it_g t) d). set (ch := upper_bound cum (strm (it_g t + N.of_nat d)%N)).
    set (co := m_coords mp (it_idx t) ch us en).
    rewrite (f_noidx (it_idx s) (it_idx t)).
    rewrite (finish_call_weight ps s (mk_obs (it_idx s) us w [] ch co) (mk_obs (it_idx t) us w [] ch co)) by reflexivity.
    pose proof (finish_call_sum ps A s t (mk_obs (it_idx t) us w [] ch co) (f (mk_obs (it_idx t) us w [] ch co))
                  Ha (eq_trans HA (eq_sym Hsh)) Hz) as HF.
    destruct (finish_call ps t _ _) as [[a' v]|c]; [|rewrite HF; reflexivity].
    destruct HF as (E & Z & L). rewrite E. cbn [bind]. rewrite Hj.
    destruct (eqb NumR v (zero NumR)); cbn [bind].
    - split; [cbn [it_g]; lia|]. eexists. split; [reflexivity|].
      unfold sim. cbn [it_g it_acc it_adj]. split; [reflexivity|]. split; [reflexivity|]. split; [reflexivity|].
      split; [exact HA|]. split; [exact HJ|]. constructor; cbn [it_acc it_adj]; [exact Z|exact (eq_trans L Hsh)|exact Hal].
    - pose proof (add_dens_sum (mul NumR (mul NumR v v) w) J (it_adj t) dens (eq_trans HJ (eq_sym Hal))) as HQ.
      destruct (add_dens (K:=NumR) (it_adj t) dens (mul NumR (mul NumR v v) w)) as [adj'|c]; [|rewrite HQ; reflexivity].
      destruct HQ as [EQ LQ]. rewrite EQ. cbn [bind it_g]. split; [lia|]. eexists. split; [reflexivity|].
      unfold sim. cbn [it_g it_acc it_adj]. split; [reflexivity|]. split; [reflexivity|]. split; [reflexivity|].
      split; [exact HA|]. split; [exact HJ|]. constructor; cbn [it_acc it_adj]; [exact Z|exact (eq_trans L Hsh)|exact (eq_trans LQ Hal)].
  Qed.
End Steps.

(** ** the call loop *)
Lemma loop_sim step usage sh al : step_sim step usage sh al -> forall n A J s t, sim sh al A J s t ->
  match iter_loop step n t with
  | Ok t' => it_g t' = (it_g t + usage * n)%N /\ exists s', iter_loop step n s = Ok s' /\ sim sh al A J s' t'
  | UB c => iter_loop step n s = UB c
  end.
Proof.
  intros Hst n A J s t Hsim. induction n as [|n IH] using N.peano_ind.
  - rewrite !iter_loop_0. split; [lia|]. exists s. auto.
  - rewrite !iter_loop_succ. destruct (iter_loop step n t) as [t1|c]; [|rewrite IH; reflexivity].
    destruct IH as (G1 & s1 & E1 & S1). rewrite E1. cbn [bind]. specialize (Hst A J s1 t1 S1).
    destruct (step t1) as [t2|c]; [|exact Hst]. destruct Hst as (G2 & s2 & E2 & S2).
    split; [rewrite G2, G1; lia|]. exists s2. auto.
Qed.

(** ** [unpack] inverts [pack] *)
Lemma skipn_app_len {X} : forall (a b : list X), skipn (length a) (a ++ b) = b.
Proof. induction a as [|x a IH]; intros b; [reflexivity|]. cbn. apply IH. Qed.
Lemma firstn_app_len {X} : forall (a b : list X), firstn (length a) (a ++ b) = a.
Proof. induction a as [|x a IH]; intros b; [reflexivity|]. cbn. f_equal. apply IH. Qed.

Section UnpackPack.
  Context {K : Num}.
  Definition fT (b : mcres K) : list K := [r_sum b; r_sumsq b].
  Definition fN (b : mcres K) : list N := [r_nz b; r_fin b].
  Definition calls_all (total : N) (r : plainres K) : Prop :=
    r_calls (p_main r) = total /\ Forall (fun d => Forall (fun b => r_calls b = total) (dr_bins d)) (p_dists r).

  Lemma unpack_bins_pack total : forall (bins : list (mcres K)) restT restN, Forall (fun b => r_calls b = total) bins ->
    unpack_bins total (length bins) (flat_map fT bins ++ restT) (flat_map fN bins ++ restN) = Ok (bins, restT, restN).
  Proof.
    induction bins as [|b bins IH]; intros restT restN H; [reflexivity|].
    inversion H as [|? ? Hb Hr]; subst. cbn [length flat_map fT fN app unpack_bins]. rewrite (IH _ _ Hr). cbn [bind].
    destruct b; cbn in *. reflexivity.
  Qed.

  Lemma unpack_dists_pack total : forall (tds rds : list (dres K)),
    map (fun d => (dr_par d, length (dr_bins d))) tds = map (fun d => (dr_par d, length (dr_bins d))) rds ->
    Forall (fun d => Forall (fun b => r_calls b = total) (dr_bins d)) rds ->
    unpack_dists total tds (flat_map fT (flat_map (fun d => dr_bins d) rds)) (flat_map fN (flat_map (fun d => dr_bins d) rds)) = Ok rds.
  Proof.
    induction tds as [|td tds IH]; intros [|rd rds] Hs Hc; try discriminate; [reflexivity|].
    cbn [map] in Hs. injection Hs as Hp Hl Hs. inversion Hc as [|? ? Hc1 Hc2]; subst.
    cbn [unpack_dists flat_map]. rewrite !flat_map_app, Hl, (unpack_bins_pack total _ _ _ Hc1). cbn [bind].
    rewrite (IH rds Hs Hc2). cbn [bind]. rewrite Hp. destruct rd; reflexivity.
  Qed.

  Lemma unpack_pack (t r : plainres K) (ex : list K) total : tshape t = tshape r -> calls_all total r ->
    unpack t (length ex) total (pack_T r ex) (pack_N r) = Ok (r, ex).
  Proof.
    intros Hs [Hm Hd]. unfold unpack, pack_T, pack_N. rewrite skipn_app_len, firstn_app_len. cbn [app].
    unfold bins_of. fold fT. fold fN. rewrite (unpack_dists_pack total (p_dists t) (p_dists r) Hs Hd). cbn [bind].
    destruct r as [m ds]. cbn [p_main p_dists] in *. destruct m; cbn in *. subst. reflexivity.
  Qed.

  Lemma calls_all_acc_result ps (a : accst K) calls : calls_all calls (acc_result ps a calls).
  Proof.
    split; [reflexivity|]. unfold acc_result. cbn [p_dists]. generalize (a_dists a) as ds.
    induction ps as [|p ps IH]; intros [|d ds]; try constructor; [|apply IH].
    unfold dist_result. cbn [dr_bins]. apply Forall_forall. intros b Hb. apply in_map_iff in Hb as (c & <- & _). reflexivity.
  Qed.
End UnpackPack.

(** ** flattening an accumulator the way [pack_T] / [pack_N] do *)
Definition cflatT (inv : R) (d : list cellR) : list R := flat_map (fun c : cellR => [inv * c_sum c; (inv * inv) * c_sumsq c]) d.
Definition cflatN (d : list cellR) : list N := flat_map (fun c : cellR => [c_nz c; c_fin c]) d.
Fixpoint dflatT (ps : list (dparams NumR)) (ds : list (list cellR)) : list R :=
  match ps, ds with
  | p :: ps', d :: ds' => cflatT (1 / d_bsx p / d_bsy p) d ++ dflatT ps' ds'
  | _, _ => []
  end.
Fixpoint dflatN (ps : list (dparams NumR)) (ds : list (list cellR)) : list N :=
  match ps, ds with
  | p :: ps', d :: ds' => cflatN d ++ dflatN ps' ds'
  | _, _ => []
  end.
Definition flatT ps (a : accst NumR) (adj : list R) : list R :=
  adj ++ [c_sum (a_main a); c_sumsq (a_main a)] ++ dflatT ps (a_dists a).
Definition flatN ps (a : accst NumR) : list N := [c_nz (a_main a); c_fin (a_main a)] ++ dflatN ps (a_dists a).

Lemma pack_T_acc ps (a : accst NumR) n adj : pack_T (acc_result ps a n) adj = flatT ps a adj.
Proof.
  unfold pack_T, flatT, acc_result, bins_of. cbn [p_main p_dists cell_result r_sum r_sumsq]. f_equal. f_equal.
  generalize (a_dists a) as ds. induction ps as [|p ps IH]; intros [|d ds]; try reflexivity.
  cbn [dist_results flat_map dflatT]. rewrite flat_map_app, IH. f_equal.
  unfold dist_result, cflatT. cbn [dr_bins]. induction d as [|c d IHd]; [reflexivity|]. cbn [map flat_map app r_sum r_sumsq]. rewrite IHd. reflexivity.
Qed.

Lemma pack_N_acc ps (a : accst NumR) n : pack_N (acc_result ps a n) = flatN ps a.
Proof.
  unfold pack_N, flatN, acc_result, bins_of. cbn [p_main p_dists cell_result r_nz r_fin]. f_equal.
  generalize (a_dists a) as ds. induction ps as [|p ps IH]; intros [|d ds]; try reflexivity.
  cbn [dist_results flat_map dflatN]. rewrite flat_map_app, IH. f_equal.
  unfold dist_result, cflatN. cbn [dr_bins]. induction d as [|c d IHd]; [reflexivity|]. cbn [map flat_map app r_nz r_fin]. rewrite IHd. reflexivity.
Qed.

Lemma cflatT_sum inv : forall a d, length a = length d -> cflatT inv (vzip cadd a d) = vzip Rplus (cflatT inv a) (cflatT inv d).
Proof.
  induction a as [|x a IH]; intros [|y d] H; try discriminate; [reflexivity|].
  rewrite vzip_cons. unfold cflatT in *. cbn [flat_map app]. rewrite !vzip_cons, IH by (cbn in H; lia).
  cbn [cadd c_sum c_sumsq]. f_equal; [ring|]. f_equal. ring.
Qed.
Lemma cflatN_sum : forall a d, length a = length d -> cflatN (vzip cadd a d) = vzip N.add (cflatN a) (cflatN d).
Proof.
  induction a as [|x a IH]; intros [|y d] H; try discriminate; [reflexivity|].
  rewrite vzip_cons. unfold cflatN in *. cbn [flat_map app]. rewrite !vzip_cons, IH by (cbn in H; lia). reflexivity.
Qed.

Lemma cflatT_length inv d : length (cflatT inv d) = (2 * length d)%nat.
Proof. exact (flat_map_pair_length (fun c : cellR => inv * c_sum c) (fun c : cellR => (inv * inv) * c_sumsq c) d). Qed.
Lemma cflatN_length d : length (cflatN d) = (2 * length d)%nat.
Proof. exact (flat_map_pair_length (fun c : cellR => c_nz c) (fun c : cellR => c_fin c) d). Qed.

Lemma dflatT_sum : forall ps A D, lens A = lens D -> dflatT ps (dsum A D) = vzip Rplus (dflatT ps A) (dflatT ps D).
Proof.
  induction ps as [|p ps IH]; intros [|a A] [|d D] H; try discriminate; try reflexivity.
  cbn [lens map] in H. injection H as H1 H2. unfold dsum. rewrite vzip_cons. cbn [dflatT]. fold (dsum A D).
  rewrite vzip_app by (rewrite !cflatT_length, H1; reflexivity). rewrite cflatT_sum by exact H1. rewrite IH by exact H2. reflexivity.
Qed.
Lemma dflatN_sum : forall ps A D, lens A = lens D -> dflatN ps (dsum A D) = vzip N.add (dflatN ps A) (dflatN ps D).
Proof.
  induction ps as [|p ps IH]; intros [|a A] [|d D] H; try discriminate; try reflexivity.
  cbn [lens map] in H. injection H as H1 H2. unfold dsum. rewrite vzip_cons. cbn [dflatN]. fold (dsum A D).
  rewrite vzip_app by (rewrite !cflatN_length, H1; reflexivity). rewrite cflatN_sum by exact H1. rewrite IH by exact H2. reflexivity.
Qed.

Lemma flatT_sum ps A X (J Y : list R) : lens (a_dists A) = lens (a_dists X) -> length J = length Y ->
  flatT ps (aplus A X) (vzip Rplus J Y) = vzip Rplus (flatT ps A J) (flatT ps X Y).
Proof.
  intros HL HJ. unfold flatT, aplus. cbn [a_main a_dists cadd c_sum c_sumsq].
  rewrite vzip_app by exact HJ. f_equal. cbn [app]. rewrite !vzip_cons. rewrite dflatT_sum by exact HL. reflexivity.
Qed.
Lemma flatN_sum ps A X : lens (a_dists A) = lens (a_dists X) -> flatN ps (aplus A X) = vzip N.add (flatN ps A) (flatN ps X).
Proof.
  intros HL. unfold flatN, aplus. cbn [a_main a_dists cadd c_nz c_fin app]. rewrite !vzip_cons. rewrite dflatN_sum by exact HL. reflexivity.
Qed.

Lemma dflat_length : forall ps ds ds', lens ds = lens ds' ->
  length (dflatT ps ds) = length (dflatT ps ds') /\ length (dflatN ps ds) = length (dflatN ps ds') /\ length (dflatT ps ds) = length (dflatN ps ds).
Proof.
  induction ps as [|p ps IH]; intros [|d ds] [|d' ds'] H; try discriminate; cbn [dflatT dflatN]; auto.
  cbn [lens map] in H. injection H as H1 H2. destruct (IH ds ds' H2) as (E1 & E2 & E3).
  rewrite !app_length, !cflatT_length, !cflatN_length, H1, E1, E2. rewrite <- E1, E3, E2. auto.
Qed.

Lemma flat_length ps A X (J Y : list R) : lens (a_dists A) = lens (a_dists X) -> length J = length Y ->
  length (flatT ps A J) = length (flatT ps X Y) /\ length (flatN ps A) = length (flatN ps X).
Proof.
  intros HL HJ. destruct (dflat_length ps _ _ HL) as (E1 & E2 & _). unfold flatT, flatN. cbn [app]. rewrite !app_length. cbn [length]. rewrite HJ, E1, E2. auto.
Qed.

(** ** zero accumulators are neutral *)
Lemma dsum_zero_r : forall (ns : list nat) ds, lens ds = ns -> dz ds -> dsum ds (map (fun n => repeat (cell0 (K:=NumR)) n) ns) = ds.
Proof.
  induction ns as [|n ns IH]; intros [|d ds] HL HZ; try discriminate; [reflexivity|].
  cbn [lens map] in HL. injection HL as H1 H2. inversion HZ as [|? ? Z1 Z2]; subst. cbn [map]. unfold dsum. rewrite vzip_cons. f_equal.
  - apply vzip_neutral_r; [reflexivity|]. intros x Hx. apply cadd_cell0_r. rewrite Forall_forall in Z1. apply Z1. exact Hx.
  - apply IH; [reflexivity|exact Z2].
Qed.

Lemma acc_init_dists (ps : list (dparams NumR)) : a_dists (acc_init ps) = map (fun n => repeat (cell0 (K:=NumR)) n) (ps_lens ps).
Proof. unfold acc_init, ps_lens. cbn [a_dists]. rewrite map_map. reflexivity. Qed.

Lemma accz_init (ps : list (dparams NumR)) : accz (acc_init ps).
Proof.
  split; [reflexivity|]. unfold acc_init. cbn [a_dists]. apply Forall_forall. intros d Hd. apply in_map_iff in Hd as (p & <- & _).
  apply Forall_forall. intros c Hc. apply repeat_spec in Hc. subst c. reflexivity.
Qed.

Lemma aplus_init_r (ps : list (dparams NumR)) X : accz X -> lens (a_dists X) = ps_lens ps -> aplus X (acc_init ps) = X.
Proof.
  intros [Hm Hd] HL. destruct X as [m ds]. unfold aplus. cbn [a_main a_dists] in *. rewrite acc_init_dists, (dsum_zero_r _ _ HL Hd).
  change (a_main (acc_init ps)) with (cell0 (K:=NumR)). rewrite (cadd_cell0_r m Hm). reflexivity.
Qed.

Lemma vzip_zero_r (J : list R) al : length J = al -> vzip Rplus J (repeat 0 al) = J.
Proof. intros H. apply vzip_neutral_r; [exact H|]. intros x _. ring. Qed.

(** ** the serial call loop is the chain of the ranks' blocks *)
Section Chain.
  Variable world : N.
  Variable sub_calls : Z -> Z -> Z -> Z.
  Hypothesis Hw : world_ok world.
  Hypothesis Hs : sub_calls_ok sub_calls.
  Variable ps : list (dparams NumR).
  Variable step : itst NumR -> res (itst NumR).
  Variable usage : N.
  Variable al : nat.
  Hypothesis Hst : step_sim step usage (ps_lens ps) al.
  Variables calls g : N.
  Hypothesis Hc : (calls < 2 ^ 64)%N.
  Variable idx : N -> N.
  Variable i0 : N.

  Notation sh := (ps_lens ps).
  Notation acc0 := (acc_init ps).
  Notation adj0 := (repeat 0 al).
  Notation before := (rk_before world calls).
  Notation subc := (rk_sub world sub_calls calls).
  Definition t0 (r : N) : itst NumR := mk_itst (g + usage * before r) (idx r) acc0 adj0 [].
  Definition s0 : itst NumR := mk_itst g i0 acc0 adj0 [].
  Definition tf (r : N) : itst NumR := match iter_loop step (subc r) (t0 r) with Ok t => t | UB _ => t0 r end.

  Lemma tinv_init gg ii : tinv sh al (mk_itst gg ii acc0 adj0 []).
  Proof. constructor; cbn [it_acc it_adj]; [apply accz_init|apply acc_init_lens|apply repeat_length]. Qed.

  (* a state with invariant [tinv] is its own sum with a fresh state *)
  Lemma sim_fresh (s : itst NumR) gg ii : tinv sh al s -> it_g s = gg ->
    sim sh al (it_acc s) (it_adj s) s (mk_itst gg ii acc0 adj0 []).
  Proof.
    intros [Hz Hsh Hal] Hg. unfold sim. cbn [it_g it_acc it_adj]. split; [exact Hg|].
    split; [symmetry; apply aplus_init_r; assumption|]. split; [symmetry; apply vzip_zero_r; exact Hal|].
    split; [exact Hsh|]. split; [exact Hal|apply tinv_init].
  Qed.

  Lemma tinv_of_sim A J s t : sim sh al A J s t -> tinv sh al s.
  Proof.
    intros (Hg & Ha & Hj & HA & HJ & [Hz Hsh Hal]). constructor.
    - rewrite Ha. apply accz_aplus.
    - rewrite Ha. cbn [aplus a_dists]. rewrite lens_dsum; [exact Hsh|]. rewrite HA, Hsh. reflexivity.
    - rewrite Hj. rewrite vzip_len; [exact Hal|]. exact (eq_trans HJ (eq_sym Hal)).
  Qed.

  (* invariants of the loop from a fresh state *)
  Lemma loop_inv gg ii n s : iter_loop step n (mk_itst gg ii acc0 adj0 []) = Ok s -> it_g s = (gg + usage * n)%N /\ tinv sh al s.
  Proof.
    intros H. pose proof (loop_sim step usage sh al Hst n _ _ _ _ (sim_fresh (mk_itst gg ii acc0 adj0 []) gg ii (tinv_init gg ii) eq_refl)) as HL.
    cbn [it_acc it_adj] in HL. rewrite H in HL. destruct HL as (G & s' & E & Sm). cbn [it_g] in G. split; [exact G|].
    injection E as <-. eapply tinv_of_sim; exact Sm.
  Qed.

  Definition Bn (n : nat) : N := if (N.of_nat n <? world)%N then before (N.of_nat n) else calls.

  Lemma Bn_0 : Bn 0 = 0%N.
  Proof. unfold Bn. destruct Hw as [H1 _]. destruct (N.ltb_spec (N.of_nat 0) world); [|lia]. apply (rk_before_0 world sub_calls calls Hw Hs Hc). Qed.

  Lemma Bn_succ n : (n < N.to_nat world)%nat -> Bn (S n) = (Bn n + subc (N.of_nat n))%N /\ Bn n = before (N.of_nat n).
  Proof.
    intros Hn. unfold Bn. destruct (N.ltb_spec (N.of_nat n) world); [|lia]. split; [|reflexivity].
    rewrite (rk_before_succ world sub_calls calls (N.of_nat n) Hw Hs Hc) by lia.
    replace (N.of_nat (S n)) with (N.of_nat n + 1)%N by lia. reflexivity.
  Qed.

  Lemma Bn_world : Bn (N.to_nat world) = calls.
  Proof. unfold Bn. rewrite N2Nat.id, N.ltb_irrefl. reflexivity. Qed.

  (* if every rank's block is defined, so is the serial loop, and its accumulators are the sums *)
  Lemma chain_ok : forall n, (n <= N.to_nat world)%nat ->
    (forall r, (r < N.of_nat n)%N -> exists t, iter_loop step (subc r) (t0 r) = Ok t) ->
    exists s, iter_loop step (Bn n) s0 = Ok s /\
      it_acc s = fold_left aplus (map (fun r => it_acc (tf r)) (iotaN 0 n)) acc0 /\
      it_adj s = fold_left (vzip Rplus) (map (fun r => it_adj (tf r)) (iotaN 0 n)) adj0.
  Proof.
    induction n as [|n IH]; intros Hn Hloc.
    - rewrite Bn_0. exists s0. auto.
    - destruct IH as (s & E & Ea & Ej); [lia|intros r Hr; apply Hloc; lia|].
      destruct (Bn_succ n ltac:(lia)) as [B1 B2]. rewrite B1.
      destruct (loop_inv _ _ _ _ E) as [G Ti]. rewrite B2 in G.
      pose proof (loop_sim step usage sh al Hst (subc (N.of_nat n)) _ _ _ _ (sim_fresh s _ (idx (N.of_nat n)) Ti G)) as HL.
      fold (t0 (N.of_nat n)) in HL. destruct (Hloc (N.of_nat n) ltac:(lia)) as (t & Et).
      assert (Etf : tf (N.of_nat n) = t) by (unfold tf; rewrite Et; reflexivity).
      rewrite Et in HL. destruct HL as (_ & s' & E' & (_ & Ha & Hj & _)).
      exists s'. split; [rewrite iter_loop_add, E; exact E'|].
      rewrite iotaN_snoc, !map_app, !fold_left_app, N.add_0_l. cbn [map fold_left]. rewrite Etf. split; [rewrite Ha, Ea; reflexivity|rewrite Hj, Ej; reflexivity].
  Qed.

  (* conversely, if the serial loop is defined so is every rank's block *)
  Lemma chain_locals s : iter_loop step calls s0 = Ok s -> forall r, (r < world)%N -> exists t, iter_loop step (subc r) (t0 r) = Ok t.
  Proof.
    intros H r Hr. pose proof (rk_split world sub_calls calls r Hw Hs Hc Hr) as Hsp.
    rewrite <- Hsp, <- N.add_assoc, iter_loop_add in H. apply bind_Ok in H as (sr & E1 & H).
    rewrite iter_loop_add in H. apply bind_Ok in H as (sr' & E2 & _).
    destruct (loop_inv _ _ _ _ E1) as [G Ti].
    pose proof (loop_sim step usage sh al Hst (subc r) _ _ _ _ (sim_fresh sr _ (idx r) Ti G)) as HL. fold (t0 r) in HL.
    destruct (iter_loop step (subc r) (t0 r)) as [t|c]; [exists t; reflexivity|]. congruence.
  Qed.
End Chain.

(** ** the flattened sum of the ranks' accumulators *)
Lemma Nsum_snoc l x : Nsum (l ++ [x]) = (Nsum l + x)%N.
Proof. unfold Nsum, msum. induction l as [|y l IH]; cbn [app fold_right]; [lia|]. rewrite IH. lia. Qed.

Section FlatTotal.
  Variable ps : list (dparams NumR).
  Variable al : nat.
  Notation sh := (ps_lens ps).
  Notation acc0 := (acc_init ps).
  Notation adj0 := (repeat 0 al).
  Definition okshape (x : accst NumR * list R) : Prop := lens (a_dists (fst x)) = sh /\ length (snd x) = al.

  Lemma flat_zero k : nth k (flatT ps acc0 adj0) 0 = 0 /\ nth k (flatN ps acc0) 0%N = 0%N.
  Proof.
    pose proof (flatT_sum ps acc0 acc0 adj0 adj0 eq_refl eq_refl) as ET.
    pose proof (flatN_sum ps acc0 acc0 eq_refl) as EN.
    rewrite (aplus_init_r ps acc0 (accz_init ps) (acc_init_lens ps)) in ET, EN.
    rewrite (vzip_zero_r adj0 al (repeat_length _ _)) in ET. split.
    - destruct (Nat.lt_ge_cases k (length (flatT ps acc0 adj0))) as [Hk|Hk]; [|apply nth_overflow; exact Hk].
      pose proof (vzip_nth Rplus 0 (flatT ps acc0 adj0) (flatT ps acc0 adj0) k eq_refl Hk) as E. rewrite <- ET in E. lra.
    - destruct (Nat.lt_ge_cases k (length (flatN ps acc0))) as [Hk|Hk]; [|apply nth_overflow; exact Hk].
      pose proof (vzip_nth N.add 0%N (flatN ps acc0) (flatN ps acc0) k eq_refl Hk) as E. rewrite <- EN in E. lia.
  Qed.

  Lemma flat_total : forall l, Forall okshape l ->
    let S := fold_left aplus (map fst l) acc0 in
    let JS := fold_left (vzip Rplus) (map snd l) adj0 in
    okshape (S, JS) /\
    (forall k, (k < length (flatT ps acc0 adj0))%nat ->
       nth k (flatT ps S JS) 0 = Rsum (map (fun x => nth k (flatT ps (fst x) (snd x)) 0) l)) /\
    (forall k, (k < length (flatN ps acc0))%nat ->
       nth k (flatN ps S) 0%N = Nsum (map (fun x => nth k (flatN ps (fst x)) 0%N) l)).
  Proof.
    cbv zeta. induction l as [|x l IH] using rev_ind; intros Hl.
    - cbn [map fold_left]. split; [split; [apply acc_init_lens|apply repeat_length]|].
      split; intros k _; [apply (flat_zero k)|apply (flat_zero k)].
    - apply Forall_app in Hl as [Hl Hx]. apply Forall_inv in Hx. destruct (IH Hl) as ([S1 S2] & IT & IN). cbn [fst snd] in S1, S2.
      destruct Hx as [X1 X2]. rewrite !map_app, !fold_left_app. cbn [map fold_left].
      set (S := fold_left aplus (map fst l) acc0) in *. set (JS := fold_left (vzip Rplus) (map snd l) adj0) in *.
      assert (HLs : lens (a_dists S) = lens (a_dists (fst x))) by (rewrite S1, X1; reflexivity).
      assert (HJs : length JS = length (snd x)) by (rewrite S2, X2; reflexivity).
      destruct (flat_length ps S (fst x) JS (snd x) HLs HJs) as [LT LN].
      destruct (flat_length ps S acc0 JS adj0) as [LT0 LN0]; [rewrite S1; symmetry; apply acc_init_lens|rewrite S2, repeat_length; reflexivity|].
      split; [split; cbn [fst snd]|split].
      + cbn [aplus a_dists]. rewrite lens_dsum by exact HLs. exact X1.
      + rewrite vzip_len by exact HJs. exact X2.
      + intros k Hk. rewrite flatT_sum by assumption. rewrite vzip_nth by (try exact LT; rewrite LT0; exact Hk).
        rewrite IT by exact Hk. rewrite map_app, Rsum_app. cbn [map]. rewrite Rsum_one. reflexivity.
      + intros k Hk. rewrite flatN_sum by assumption. rewrite vzip_nth by (try exact LN; rewrite LN0; exact Hk).
        rewrite IN by exact Hk. rewrite map_app. cbn [map]. rewrite Nsum_snoc. reflexivity.
  Qed.
End FlatTotal.

(** ** one iteration of all ranks = one serial iteration (generic in the integrator) *)
Section GenIter.
  Variables (C S Rs : Type).
  Variable world : N.
  Variable perm : list N.
  Variable sub_calls : Z -> Z -> Z -> Z.
  Variable usage : N.
  Variable ps : list (dparams NumR).
  Variable step : S -> itst NumR -> res (itst NumR).
  Variable al : S -> nat.
  Variable mk : S -> plainres NumR -> list R -> Rs.

  (* the common form of plain_iteration / vegas_iteration / mc_iteration *)
  Definition gen_iter (a : S) (n g i : N) : res (Rs * N * N * list (event NumR)) :=
    do s <- iter_loop (step a) n (mk_itst g i (acc_init ps) (repeat 0 (al a)) []);
    Ok (mk a (acc_result ps (it_acc s) n) (it_adj s), it_g s, it_idx s, rev (it_tr s)).

  Variable plain_of : Rs -> plainres NumR.
  Variable extra_of : Rs -> list R.
  Hypothesis plain_mk : forall a pl ex, plain_of (mk a pl ex) = pl.
  Hypothesis extra_mk : forall a pl ex, length ex = al a -> extra_of (mk a pl ex) = ex.
  Variable addc : C -> Rs -> N -> C.
  Variable cb : N -> C -> bool.
  Variable refine : C -> S -> Rs -> res S.
  Variable Inv : S -> Prop.
  Hypothesis Hw : world_ok world.
  Hypothesis Hs : sub_calls_ok sub_calls.
  Hypothesis Hperm : Permutation perm (iotaN 0 (N.to_nat world)).
  Hypothesis Hcb : cb_rank_independent cb.
  Hypothesis Hsim : forall a, Inv a -> step_sim (step a) usage (ps_lens ps) (al a).

  Notation mpi_it := (mpi_iteration C S Rs world perm sub_calls usage gen_iter plain_of extra_of mk addc cb refine).
  Notation lpart := (local_part C S Rs world sub_calls usage gen_iter).

  Lemma gen_cost : cost_ok usage gen_iter Inv.
  Proof.
    intros a n g i r g' i' e Ha H. unfold gen_iter in H. apply bind_Ok in H as (s & Hl & H). injection H as _ <- _ _.
    exact (proj1 (loop_inv ps (step a) usage (al a) (Hsim a Ha) g i n s Hl)).
  Qed.

  Lemma gen_shape a n g i x : Inv a -> gen_iter a n g i = Ok x ->
    shape_of plain_of extra_of (lr_of x) = (combine ps (ps_lens ps), al a).
  Proof.
    intros Ha H. unfold gen_iter in H. apply bind_Ok in H as (s & Hl & H). injection H as <-.
    destruct (loop_inv ps (step a) usage (al a) (Hsim a Ha) g i n s Hl) as [_ [_ Hsh Hal]].
    unfold shape_of, lr_of. cbn [fst]. rewrite plain_mk, (extra_mk _ _ _ Hal), tshape_acc_result, Hsh, Hal. reflexivity.
  Qed.

  Lemma gen_template a : Inv a -> same_template gen_iter plain_of extra_of a.
  Proof.
    intros Ha n g i n' g' i' x x' H1 H2.
    pose proof (gen_shape a n g i x Ha H1) as E1. pose proof (gen_shape a n' g' i' x' Ha H2) as E2.
    unfold lr_of in E1, E2. rewrite E1, E2. reflexivity.
  Qed.

  Lemma gen_iteration calls sts c g a i0 :
    (calls < 2 ^ 64)%N -> length sts = N.to_nat world -> agree c g a sts -> Inv a ->
    match gen_iter a calls g i0 with
    | Ok (rser, gser, _, _) =>
        gser = (g + usage * calls)%N /\
        let c' := addc c rser gser in
        let go := cb 0%N c' in
        match (if go then refine c' a rser else Ok a) with
        | Ok a' => exists sts' logs, mpi_it calls sts = Ok (sts', logs, go) /\ agree c' gser a' sts' /\
                     length sts' = N.to_nat world /\ length logs = N.to_nat world
        | UB code => mpi_it calls sts = UB code
        end
    | UB _ => exists code, mpi_it calls sts = UB code
    end.
  Proof.
    intros Hc Hlen Hag HI.
    pose proof (perm_ok_of_permutation world perm Hw Hperm) as Hp.
    pose proof (Hsim a HI) as Hst.
    destruct (mapM_idx (lpart calls) 0 sts) as [locals|code] eqn:Hm.
    2:{ assert (HU : mpi_it calls sts = UB code) by (unfold mpi_iteration; rewrite Hm; reflexivity).
        destruct (gen_iter a calls g i0) as [[[[rser gser] i'] ev]|c0] eqn:Eser; [|exists code; exact HU].
        exfalso. unfold gen_iter in Eser. apply bind_Ok in Eser as (s & Hl & _).
        apply mapM_idx_UB in Hm as (k & st & E1 & E2). rewrite N.add_0_l in E2.
        assert (Hk : (N.of_nat k < world)%N).
        { assert (k < length sts)%nat by (apply nth_error_Some; congruence). lia. }
        unfold agree in Hag. rewrite Forall_forall in Hag. destruct (Hag st (nth_error_In _ _ E1)) as (_ & G1 & A1).
        destruct (chain_locals world sub_calls Hw Hs ps (step a) usage (al a) Hst calls g Hc (fun _ => rs_idx st) i0 s Hl (N.of_nat k) Hk) as (t & Et).
        unfold local_part in E2. rewrite G1, A1 in E2. unfold gen_iter at 1 in E2. unfold t0 in Et. rewrite Et in E2. discriminate. }
    destruct (locals_facts C S Rs world sub_calls usage gen_iter Inv calls sts c g a locals Hw Hs gen_cost Hc Hlen Hag HI Hm) as [Ll Lf].
    set (idxf := fun r : N => match nth_error sts (N.to_nat r) with Some st => rs_idx st | None => 0%N end).
    set (TF := tf world sub_calls ps (step a) usage (al a) calls g idxf).
    (* every rank's local result, read off its final loop state *)
    assert (Hloc : forall k x, nth_error locals k = Some x ->
              iter_loop (step a) (rk_sub world sub_calls calls (N.of_nat k)) (t0 world ps usage (al a) calls g idxf (N.of_nat k)) = Ok (TF (N.of_nat k)) /\
              lr_of x = mk a (acc_result ps (it_acc (TF (N.of_nat k))) (rk_sub world sub_calls calls (N.of_nat k))) (it_adj (TF (N.of_nat k))) /\
              length (it_adj (TF (N.of_nat k))) = al a).
    { intros k x Hk. destruct (Lf k x Hk) as (st & Est & _ & _ & Hl). unfold gen_iter in Hl. apply bind_Ok in Hl as (t & Et & Hl).
      assert (Ei : idxf (N.of_nat k) = rs_idx st) by (unfold idxf; rewrite Nat2N.id, Est; reflexivity).
      destruct (loop_inv ps (step a) usage (al a) Hst _ _ _ _ Et) as [_ [_ _ Hal]].
      unfold TF, tf, t0. rewrite Ei, Et. split; [reflexivity|]. split; [injection Hl as <- _ _ _; reflexivity|exact Hal]. }
    assert (Hloc' : forall r, (r < N.of_nat (N.to_nat world))%N ->
              exists t, iter_loop (step a) (rk_sub world sub_calls calls r) (t0 world ps usage (al a) calls g idxf r) = Ok t).
    { intros r Hr. destruct (nth_error locals (N.to_nat r)) as [x|] eqn:Ex; [|apply nth_error_None in Ex; lia].
      destruct (Hloc _ _ Ex) as (E & _ & _). rewrite N2Nat.id in E. eexists. exact E. }
    destruct (chain_ok world sub_calls Hw Hs ps (step a) usage (al a) Hst calls g Hc idxf i0 (N.to_nat world) (le_n _) Hloc')
      as (s & Es & Ea & Ej).
    rewrite Bn_world in Es. fold TF in Ea, Ej.
    unfold gen_iter at 1. unfold s0 in Es. rewrite Es. cbn [bind].
    destruct (loop_inv ps (step a) usage (al a) Hst g i0 calls s Es) as [Gs [Zs Shs Als]].
    split; [exact Gs|]. cbv zeta.
    destruct (mpi_iteration_eq C S Rs world perm sub_calls usage gen_iter plain_of extra_of mk addc cb refine Inv
                calls sts c g a locals Hw Hs gen_cost Hc Hlen Hag HI (gen_template a HI) Hp Hcb Hm)
      as (tbuf & nbuf & pl & ex & Et & En & Hun & E).
    cbv zeta in E. rewrite E. clear E. rewrite <- Gs.
    (* the accumulators of the ranks *)
    set (l := map (fun r => @pair (accst NumR) (list R) (it_acc (TF r)) (it_adj (TF r))) (iotaN 0 (N.to_nat world))).
    change (T NumR) with R in *.
    assert (Hl : Forall (okshape ps (al a)) l).
    { apply Forall_forall. intros y Hy. apply in_map_iff in Hy as (r & <- & Hr). apply iotaN_In_bound in Hr.
      destruct (nth_error locals (N.to_nat r)) as [x|] eqn:Ex; [|apply nth_error_None in Ex; lia].
      destruct (Hloc _ _ Ex) as (E & _ & _). rewrite N2Nat.id in E. unfold t0 in E.
      destruct (loop_inv ps (step a) usage (al a) Hst _ _ _ _ E) as [_ [_ H1 H2]]. split; assumption. }
    destruct (flat_total ps (al a) l Hl) as ([S1 S2] & HT & HN). cbn [fst snd] in S1, S2.
    assert (ES : fold_left aplus (map fst l) (acc_init ps) = it_acc s) by (rewrite Ea; unfold l; rewrite map_map; reflexivity).
    assert (EJ : fold_left (vzip Rplus) (map snd l) (repeat 0 (al a)) = it_adj s) by (rewrite Ej; unfold l; rewrite map_map; reflexivity).
    change (T NumR) with R in *. rewrite ES in S1, HT, HN. rewrite EJ in S2, HT.
    (* the two reduced buffers are the packed serial result *)
    assert (EcT : map (fun x => pack_T (plain_of (lr_of x)) (extra_of (lr_of x))) locals = map (fun y => flatT ps (fst y) (snd y)) l).
    { unfold l. rewrite map_map. cbn [fst snd]. rewrite <- Ll. apply map_by_index. intros k x Hk. rewrite N.add_0_l.
      destruct (Hloc k x Hk) as (_ & -> & Hal). rewrite plain_mk, (extra_mk _ _ _ Hal). apply pack_T_acc. }
    assert (EcN : map (fun x => pack_N (plain_of (lr_of x))) locals = map (fun y => flatN ps (fst y)) l).
    { unfold l. rewrite map_map. cbn [fst snd]. rewrite <- Ll. apply map_by_index. intros k x Hk. rewrite N.add_0_l.
      destruct (Hloc k x Hk) as (_ & -> & _). rewrite plain_mk. apply pack_N_acc. }
    assert (Hne : l <> []).
    { unfold l. destruct Hw as [H1 _]. destruct (N.to_nat world) eqn:Ew; [lia|]. discriminate. }
    assert (Hll : length l = N.to_nat world) by (unfold l; rewrite map_length; apply iotaN_len).
    assert (HlenT : Forall (fun v => length v = length (flatT ps (acc_init ps) (repeat 0 (al a)))) (map (fun y => flatT ps (fst y) (snd y)) l)).
    { apply Forall_forall. intros v Hv. apply in_map_iff in Hv as (y & <- & Hy). rewrite Forall_forall in Hl. destruct (Hl y Hy) as [Y1 Y2].
      apply flat_length; [rewrite Y1; symmetry; apply acc_init_lens|rewrite Y2, repeat_length; reflexivity]. }
    assert (HlenN : Forall (fun v => length v = length (flatN ps (acc_init ps))) (map (fun y => flatN ps (fst y)) l)).
    { apply Forall_forall. intros v Hv. apply in_map_iff in Hv as (y & <- & Hy). rewrite Forall_forall in Hl. destruct (Hl y Hy) as [Y1 Y2].
      apply (flat_length ps (fst y) (acc_init ps) (snd y) (repeat 0 (al a))); [rewrite Y1; symmetry; apply acc_init_lens|rewrite Y2, repeat_length; reflexivity]. }
    destruct (allreduce_R_sum perm _ _ ltac:(rewrite map_length, Hll; exact Hperm) ltac:(destruct l; [congruence|discriminate]) HlenT) as (vT & EvT & LvT & HvT).
    destruct (allreduce_N_sum perm _ _ ltac:(rewrite map_length, Hll; exact Hperm) ltac:(destruct l; [congruence|discriminate]) HlenN) as (vN & EvN & LvN & HvN).
    change (T NumR) with R in *. rewrite EcT in Et. rewrite EcN in En. rewrite Et in EvT. rewrite En in EvN. injection EvT as <-. injection EvN as <-.
    destruct (flat_length ps (it_acc s) (acc_init ps) (it_adj s) (repeat 0 (al a))) as [LT0 LN0];
      [exact (eq_trans S1 (eq_sym (acc_init_lens ps)))|exact (eq_trans S2 (eq_sym (repeat_length _ _)))|].
    assert (ETb : tbuf = pack_T (acc_result ps (it_acc s) calls) (it_adj s)).
    { rewrite pack_T_acc. apply (nth_ext _ _ 0 0); [rewrite LvT, LT0; reflexivity|]. intros k Hk. rewrite LvT in Hk.
      rewrite (HvT k Hk), (HT k Hk), map_map. reflexivity. }
    assert (ENb : nbuf = pack_N (acc_result ps (it_acc s) calls)).
    { rewrite pack_N_acc. apply (nth_ext _ _ 0%N 0%N); [rewrite LvN, LN0; reflexivity|]. intros k Hk. rewrite LvN in Hk.
      rewrite (HvN k Hk), (HN k Hk), map_map. reflexivity. }
    (* unpacking gives the serial result back *)
    assert (Epl : pl = acc_result ps (it_acc s) calls /\ ex = it_adj s).
    { destruct locals as [|x0 locals']; [cbn in Ll; destruct Hw; lia|].
      pose proof (Forall_inv Hun) as (Hu0 & _). cbv beta in Hu0.
      destruct (Hloc O x0 eq_refl) as (E0 & L0 & Hal0). rewrite L0, plain_mk, (extra_mk _ _ _ Hal0) in Hu0.
      assert (Eal : length (it_adj (TF (N.of_nat 0))) = length (it_adj s)).
      { destruct (loop_inv ps (step a) usage (al a) Hst _ _ _ _ E0) as [_ [_ _ H2]]. exact (eq_trans H2 (eq_sym S2)). }
      change (T NumR) with R in *. rewrite Eal, ETb, ENb in Hu0.
      assert (Hsh0 : tshape (acc_result ps (it_acc (TF (N.of_nat 0))) (rk_sub world sub_calls calls (N.of_nat 0))) =
                     tshape (acc_result ps (it_acc s) calls)).
      { rewrite !tshape_acc_result. destruct (loop_inv ps (step a) usage (al a) Hst _ _ _ _ E0) as [_ [_ H1 _]]. f_equal. exact (eq_trans H1 (eq_sym S1)). }
      pose proof (unpack_pack (K:=NumR) _ _ (it_adj s) calls Hsh0 (calls_all_acc_result ps (it_acc s) calls)) as EU.
      pose proof (eq_trans (eq_sym Hu0) EU) as HH. injection HH as -> ->. auto. }
    destruct Epl as [-> ->].
    set (rser := mk a (acc_result ps (it_acc s) calls) (it_adj s)). set (c' := addc c rser (it_g s)).
    destruct (if cb 0%N c' then refine c' a rser else Ok a) as [a'|code]; cbn [bind]; [|reflexivity].
    eexists _, _. split; [reflexivity|]. split; [|split; rewrite map_length; exact Ll].
    apply Forall_forall. intros st Hst'. apply in_map_iff in Hst' as (x & <- & _). cbn. auto.
  Qed.
End GenIter.

(** ** whole runs (generic): the MPI loop against the serial driver loop *)
Section GenRun.
  Variables (C S Rs : Type).
  Variable world : N.
  Variable perm : list N.
  Variable sub_calls : Z -> Z -> Z -> Z.
  Variable usage : N.
  Variable ps : list (dparams NumR).
  Variable step : S -> itst NumR -> res (itst NumR).
  Variable al : S -> nat.
  Variable mk : S -> plainres NumR -> list R -> Rs.
  Variable plain_of : Rs -> plainres NumR.
  Variable extra_of : Rs -> list R.
  Hypothesis plain_mk : forall a pl ex, plain_of (mk a pl ex) = pl.
  Hypothesis extra_mk : forall a pl ex, length ex = al a -> extra_of (mk a pl ex) = ex.
  Variable addc : C -> Rs -> N -> C.
  Variable cb : N -> C -> bool.
  Variable refine : C -> S -> Rs -> res S.
  Variable Inv : S -> Prop.
  Hypothesis Hw : world_ok world.
  Hypothesis Hs : sub_calls_ok sub_calls.
  Hypothesis Hperm : Permutation perm (iotaN 0 (N.to_nat world)).
  Hypothesis Hsim : forall a, Inv a -> step_sim (step a) usage (ps_lens ps) (al a).
  (* the serial driver: the adaptive state is recomputed from the checkpoint before every iteration *)
  Variable aux_of : C -> res S.
  Variable cbs : C -> bool.
  Hypothesis Hcbs : forall r c, cb r c = cbs c.
  Hypothesis aux_refine : forall c a pl ex g, aux_of (addc c (mk a pl ex) g) = refine (addc c (mk a pl ex) g) a (mk a pl ex).
  Hypothesis refine_inv : refine_ok refine Inv.

  Notation giter := (gen_iter S Rs ps step al mk).
  Notation serial_iter := (fun c calls g i => do a <- aux_of c; giter a calls g i).
  Notation mpi_lp := (mpi_loop C S Rs world perm sub_calls usage giter plain_of extra_of mk addc cb refine).

  Lemma Hcb_of : cb_rank_independent cb.
  Proof. intros r r' c. rewrite !Hcbs. reflexivity. Qed.

  Lemma gen_iter_mk a n g i r g' i' e : giter a n g i = Ok (r, g', i', e) -> exists pl ex, r = mk a pl ex.
  Proof. unfold gen_iter. intros H. apply bind_Ok in H as (s & _ & H). injection H as <- _ _ _. eauto. Qed.

  Lemma gen_loop cs : forall sts log c g a i0 slog,
    Forall (fun calls => (calls < 2 ^ 64)%N) cs -> length sts = N.to_nat world -> agree c g a sts -> Inv a -> aux_of c = Ok a ->
    match run_loop C Rs (event NumR) serial_iter addc cbs cs c g i0 slog with
    | Ok (c', _, _) =>
        match mpi_lp cs sts log with
        | Ok (sts', _) => length sts' = N.to_nat world /\ Forall (fun st => rs_chk st = c') sts'
        | UB code => aux_of c' = UB code
        end
    | UB _ => exists code, mpi_lp cs sts log = UB code
    end.
  Proof.
    induction cs as [|calls cs IH]; intros sts log c g a i0 slog Hcs Hlen Hag HI Haux.
    - cbn [run_loop mpi_loop]. split; [exact Hlen|]. eapply Forall_impl; [|exact Hag]. cbv beta. intros st (E & _). exact E.
    - pose proof (Forall_inv Hcs) as Hc. pose proof (Forall_inv_tail Hcs) as Hcs'. cbv beta in Hc.
      cbn [run_loop mpi_loop]. rewrite Haux. cbn [bind].
      pose proof (gen_iteration C S Rs world perm sub_calls usage ps step al mk plain_of extra_of plain_mk extra_mk addc cb refine Inv
                    Hw Hs Hperm Hcb_of Hsim calls sts c g a i0 Hc Hlen Hag HI) as H.
      destruct (giter a calls g i0) as [[[[rser gser] i'] ev]|c0] eqn:Eser; cbn [bind].
      2:{ destruct H as [code H]. exists code. rewrite H. reflexivity. }
      destruct H as [G H]. cbv zeta in H. destruct (gen_iter_mk _ _ _ _ _ _ _ _ Eser) as (pl & ex & Er).
      rewrite <- (Hcbs 0%N (addc c rser gser)). destruct (cb 0%N (addc c rser gser)) eqn:Ego.
      + destruct (refine (addc c rser gser) a rser) as [a'|code] eqn:Eref.
        * destruct H as (sts1 & logs1 & E & Hag1 & Hl1 & _). rewrite E. cbn [bind].
          apply (IH sts1 _ _ gser a'); [exact Hcs'|exact Hl1|exact Hag1|exact (refine_inv _ _ _ _ HI Eref)|].
          rewrite Er in *. rewrite aux_refine. exact Eref.
        * rewrite H. cbn [bind]. assert (Ea : aux_of (addc c rser gser) = UB code) by (rewrite Er in *; rewrite aux_refine; exact Eref).
          destruct cs as [|calls2 cs2]; cbn [run_loop]; [exact Ea|]. rewrite Ea. cbn [bind]. exists code. reflexivity.
      + destruct H as (sts1 & logs1 & E & Hag1 & Hl1 & _). rewrite E. cbn [bind]. split; [exact Hl1|].
        eapply Forall_impl; [|exact Hag1]. cbv beta. intros st (E1 & _). exact E1.
  Qed.
End GenRun.

(** ** the three integrators *)
Lemma extra_nil {X} (ex : list X) : length ex = 0%nat -> [] = ex.
Proof. destruct ex; [reflexivity|discriminate]. Qed.

Section Instances.
  Variable L : Libm NumR.
  Variable strm : N -> NumR.
  Variable ps : list (dparams NumR).
  Variable f : integrand NumR.
  Hypothesis Hf : ignores_counter f.
  Variable world : N.
  Variable perm : list N.
  Hypothesis Hw : world_ok world.
  Hypothesis Hperm : Permutation perm (iotaN 0 (N.to_nat world)).

  (** *** PLAIN *)
  Notation plain_it d cb := (mpi_iteration (pchk NumR) unit (plainres NumR) world perm sub_calls_plain (N.of_nat d)
    (plain_li strm ps f d) (fun r => r) (fun _ => []) (fun _ pl _ => pl) base_add cb noref).

  Lemma plain_sim d : forall a : unit, triv a -> step_sim (plain_step strm ps f d) (N.of_nat d) (ps_lens ps) 0.
  Proof. intros _ _. apply plain_step_sim. exact Hf. Qed.

  Lemma c04s_plain_iteration d cb calls sts (c : pchk NumR) g i0 :
    cb_rank_independent cb -> (calls < 2 ^ 64)%N -> length sts = N.to_nat world -> agree c g tt sts ->
    match plain_iteration strm ps f d calls g i0 with
    | Ok (rser, gser, _, _) =>
        gser = (g + N.of_nat d * calls)%N /\
        exists sts' logs, plain_it d cb calls sts = Ok (sts', logs, cb 0%N (base_add c rser gser)) /\
          agree (base_add c rser gser) gser tt sts' /\ length sts' = N.to_nat world /\ length logs = N.to_nat world
    | UB _ => exists code, plain_it d cb calls sts = UB code
    end.
  Proof.
    intros Hcb Hc Hlen Hag.
    pose proof (gen_iteration (pchk NumR) unit (plainres NumR) world perm sub_calls_plain (N.of_nat d) ps
                  (fun _ => plain_step strm ps f d) (fun _ => 0%nat) (fun _ pl _ => pl) (fun r => r) (fun _ => [])
                  (fun _ _ _ => eq_refl) (fun _ _ ex H => extra_nil ex H) base_add cb noref triv Hw sub_plain_ok Hperm Hcb (plain_sim d)
                  calls sts c g tt i0 Hc Hlen Hag I) as H.
    change (gen_iter unit (plainres NumR) ps (fun _ => plain_step strm ps f d) (fun _ => 0%nat) (fun _ pl _ => pl)) with (plain_li strm ps f d) in H.
    unfold plain_li at 1 in H. destruct (plain_iteration strm ps f d calls g i0) as [[[[rser gser] i'] ev]|c0]; [|exact H].
    destruct H as [G H]. split; [exact G|]. cbv zeta in H. unfold noref in H.
    destruct (cb 0%N (base_add c rser gser)); exact H.
  Qed.

  (* the form asked for: both defined => every rank holds the serial checkpoint *)
  Lemma c04s_plain_equals d cb calls sts (c : pchk NumR) g sts' logs go i0 rser gser idxser evser :
    cb_rank_independent cb -> (calls < 2 ^ 64)%N -> length sts = N.to_nat world -> agree c g tt sts ->
    plain_it d cb calls sts = Ok (sts', logs, go) ->
    plain_iteration strm ps f d calls g i0 = Ok (rser, gser, idxser, evser) ->
    agree (base_add c rser gser) gser tt sts' /\ go = cb 0%N (base_add c rser gser).
  Proof.
    intros Hcb Hc Hlen Hag Hrun Hser. pose proof (c04s_plain_iteration d cb calls sts c g i0 Hcb Hc Hlen Hag) as H.
    rewrite Hser in H. destruct H as (_ & sts1 & logs1 & E & Hag1 & _). rewrite E in Hrun. injection Hrun as <- <- <-. auto.
  Qed.

  Lemma c04s_plain_run d cbm cbs cs (c : pchk NumR) idx idxs :
    (forall r c, cbm r c = cbs c) -> Forall (fun calls => (calls < 2 ^ 64)%N) cs ->
    match plain_run strm ps f d cbs cs c idxs with
    | Ok (c', _, _) =>
        exists sts' logs, mpi_plain_run strm ps f world perm d cbm cs c idx = Ok (sts', logs) /\
          length sts' = N.to_nat world /\ Forall (fun st => rs_chk st = c') sts'
    | UB _ => exists code, mpi_plain_run strm ps f world perm d cbm cs c idx = UB code
    end.
  Proof.
    intros Hcbs Hcs. unfold plain_run, run, mpi_plain_run. destruct (base_gen c) as [g|code]; cbn [bind]; [|exists code; reflexivity].
    pose proof (gen_loop (pchk NumR) unit (plainres NumR) world perm sub_calls_plain (N.of_nat d) ps
                  (fun _ => plain_step strm ps f d) (fun _ => 0%nat) (fun _ pl _ => pl) (fun r => r) (fun _ => [])
                  (fun _ _ _ => eq_refl) (fun _ _ ex H => extra_nil ex H) base_add cbm noref triv Hw sub_plain_ok Hperm (plain_sim d)
                  (fun _ => Ok tt) cbs Hcbs (fun _ u _ _ _ => match u with tt => eq_refl end) (fun _ _ _ _ _ _ => I)
                  cs (ranks world (mk_rank_state c g tt idx)) [] c g tt idxs []) as H.
    cbv beta in H. cbn [bind] in H.
    change (gen_iter unit (plainres NumR) ps (fun _ => plain_step strm ps f d) (fun _ => 0%nat) (fun _ pl _ => pl)) with (plain_li strm ps f d) in H.
    unfold plain_li in H at 1.
    specialize (H Hcs (repeat_length _ _)).
    assert (Hag : agree c g tt (ranks world (mk_rank_state c g tt idx))).
    { unfold ranks, agree. apply Forall_forall. intros st Hst. apply repeat_spec in Hst. subst st. cbn. auto. }
    specialize (H Hag I eq_refl).
    match type of H with match ?X with _ => _ end => match goal with |- match ?Y with _ => _ end => change Y with X end end.
    destruct (run_loop _ _ _ _ _ _ cs c g idxs []) as [[[c' i'] ls]|c0]; [|exact H].
    fold (plain_li strm ps f d) in H.
    destruct (mpi_loop _ _ _ _ _ _ _ _ _ _ _ _ _ _ _ _ _) as [[sts' logs]|code]; [|discriminate].
    exists sts', logs. auto.
  Qed.

  (** *** VEGAS *)
  Notation vegas_it dims cb := (mpi_iteration (vchk NumR) (pdf NumR) (vegasres NumR) world perm sub_calls_vegas dims
    (vegas_li strm ps f) (@v_plain NumR) (@v_adj NumR) (fun p pl ex => mk_vegasres pl p ex) vchk_add cb (vegas_ref L)).
  Definition val (p : pdf NumR) : nat := N.to_nat (pdf_dims p * pdf_bins p).

  Lemma vegas_sim dims : forall p : pdf NumR, dims_inv dims p -> step_sim (vegas_step strm ps f p) dims (ps_lens ps) (val p).
  Proof. intros p Hp. unfold dims_inv in Hp. rewrite <- Hp. apply vegas_step_sim. exact Hf. Qed.

  Lemma c04s_vegas_iteration cb calls sts (c : vchk NumR) g p i0 :
    cb_rank_independent cb -> (calls < 2 ^ 64)%N -> length sts = N.to_nat world -> agree c g p sts ->
    match vegas_iteration strm ps f p calls g i0 with
    | Ok (rser, gser, _, _) =>
        gser = (g + pdf_dims p * calls)%N /\
        let c' := vchk_add c rser gser in
        let go := cb 0%N c' in
        match (if go then refine_pdf L p (vc_alpha c') (v_adj rser) else Ok p) with
        | Ok p' => exists sts' logs, vegas_it (pdf_dims p) cb calls sts = Ok (sts', logs, go) /\
                     agree c' gser p' sts' /\ length sts' = N.to_nat world /\ length logs = N.to_nat world
        | UB code => vegas_it (pdf_dims p) cb calls sts = UB code
        end
    | UB _ => exists code, vegas_it (pdf_dims p) cb calls sts = UB code
    end.
  Proof.
    intros Hcb Hc Hlen Hag.
    exact (gen_iteration (vchk NumR) (pdf NumR) (vegasres NumR) world perm sub_calls_vegas (pdf_dims p) ps
             (fun p => vegas_step strm ps f p) val (fun p pl ex => mk_vegasres pl p ex) (@v_plain NumR) (@v_adj NumR)
             (fun _ _ _ => eq_refl) (fun _ _ _ _ => eq_refl) vchk_add cb (vegas_ref L) (dims_inv (pdf_dims p)) Hw sub_vegas_ok Hperm Hcb
             (vegas_sim (pdf_dims p)) calls sts c g p i0 Hc Hlen Hag eq_refl).
  Qed.

  Lemma c04s_vegas_run d cbm cbs cs (c : vchk NumR) idx idxs :
    (forall r c, cbm r c = cbs c) -> Forall (fun calls => (calls < 2 ^ 64)%N) cs ->
    match vegas_run L strm ps f d cbs cs c idxs with
    | Ok (c', _, _) =>
        match mpi_vegas_run L strm ps f world perm d cbm cs c idx with
        | Ok (sts', _) => length sts' = N.to_nat world /\ Forall (fun st => rs_chk st = c') sts'
        | UB code => vchk_pdf L c' = UB code
        end
    | UB _ => exists code, mpi_vegas_run L strm ps f world perm d cbm cs c idx = UB code
    end.
  Proof.
    intros Hcbs Hcs. unfold vegas_run, run, mpi_vegas_run. cbv zeta.
    destruct (base_gen (vc_base (vchk_dimensions c d))) as [g|code]; cbn [bind]; [|exists code; reflexivity].
    destruct (vchk_pdf L (vchk_dimensions c d)) as [p|code] eqn:Ep; cbn [bind].
    2:{ destruct cs as [|calls cs]; cbn [run_loop]; [exact Ep|]. rewrite Ep. cbn [bind]. exists code. reflexivity. }
    assert (Hag : agree (vchk_dimensions c d) g p (ranks world (mk_rank_state (vchk_dimensions c d) g p idx))).
    { unfold ranks, agree. apply Forall_forall. intros st Hst. apply repeat_spec in Hst. subst st. cbn. auto. }
    exact (gen_loop (vchk NumR) (pdf NumR) (vegasres NumR) world perm sub_calls_vegas (pdf_dims p) ps
             (fun p => vegas_step strm ps f p) val (fun p pl ex => mk_vegasres pl p ex) (@v_plain NumR) (@v_adj NumR)
             (fun _ _ _ => eq_refl) (fun _ _ _ _ => eq_refl) vchk_add cbm (vegas_ref L) (dims_inv (pdf_dims p)) Hw sub_vegas_ok Hperm
             (vegas_sim (pdf_dims p)) (vchk_pdf L) cbs Hcbs
             (fun c a pl ex g => proj1 (vchk_pdf_after_add L c (mk_vegasres pl a ex) g)) (vegas_refine_ok L (pdf_dims p))
             cs (ranks world (mk_rank_state (vchk_dimensions c d) g p idx)) [] (vchk_dimensions c d) g p idxs []
             Hcs (repeat_length _ _) Hag eq_refl Ep).
  Qed.

  (** *** multi-channel *)
  Variable mp : mcmap NumR.
  Hypothesis Hmp : map_ignores_counter mp.
  Notation mc_it d cb := (mpi_iteration (mchk NumR) (list NumR) (mcres_mc NumR) world perm sub_calls_multi_channel (N.of_nat d + 1)
    (mc_li strm ps f mp d) (@m_plain NumR) (@m_adj NumR) (fun ws pl ex => mk_mcres_mc pl ex ws) mchk_add cb (mc_ref L)).

  Lemma mc_sim d : forall ws : list NumR, triv ws ->
    step_sim (mc_step strm ps f mp d ws (cumulative ws) (enabled ws)) (N.of_nat d + 1) (ps_lens ps) (length ws).
  Proof. intros ws _. apply mc_step_sim; assumption. Qed.

  Lemma c04s_mc_iteration d cb calls sts (c : mchk NumR) g (ws : list NumR) i0 :
    cb_rank_independent cb -> (calls < 2 ^ 64)%N -> length sts = N.to_nat world -> agree c g ws sts ->
    match mc_iteration strm ps f mp d ws calls g i0 with
    | Ok (rser, gser, _, _) =>
        gser = (g + (N.of_nat d + 1) * calls)%N /\
        let c' := mchk_add c rser gser in
        let go := cb 0%N c' in
        match (if go then refine_weights L ws (m_adj rser) (mc_minw c') (mc_beta c') else Ok ws) with
        | Ok ws' => exists sts' logs, mc_it d cb calls sts = Ok (sts', logs, go) /\
                      agree c' gser ws' sts' /\ length sts' = N.to_nat world /\ length logs = N.to_nat world
        | UB code => mc_it d cb calls sts = UB code
        end
    | UB _ => exists code, mc_it d cb calls sts = UB code
    end.
  Proof.
    intros Hcb Hc Hlen Hag.
    exact (gen_iteration (mchk NumR) (list R) (mcres_mc NumR) world perm sub_calls_multi_channel (N.of_nat d + 1) ps
             (fun ws : list NumR => mc_step strm ps f mp d ws (cumulative ws) (enabled ws)) (@length R) (fun ws pl ex => mk_mcres_mc pl ex ws)
             (@m_plain NumR) (@m_adj NumR) (fun _ _ _ => eq_refl) (fun _ _ _ _ => eq_refl) mchk_add cb (mc_ref L) triv Hw sub_mc_ok Hperm Hcb
             (mc_sim d) calls sts c g ws i0 Hc Hlen Hag I).
  Qed.

  Lemma c04s_mc_run d channels cbm cbs cs (c : mchk NumR) idx idxs :
    (forall r c, cbm r c = cbs c) -> Forall (fun calls => (calls < 2 ^ 64)%N) cs ->
    match mc_run L strm ps f mp d channels cbs cs c idxs with
    | Ok (c', _, _) =>
        match mpi_mc_run L strm ps f world perm mp d channels cbm cs c idx with
        | Ok (sts', _) => length sts' = N.to_nat world /\ Forall (fun st => rs_chk st = c') sts'
        | UB code => mchk_weights L c' = UB code
        end
    | UB _ => exists code, mpi_mc_run L strm ps f world perm mp d channels cbm cs c idx = UB code
    end.
  Proof.
    intros Hcbs Hcs. unfold mc_run, run, mpi_mc_run. cbv zeta.
    destruct (base_gen (mc_base (mchk_channels c channels))) as [g|code]; cbn [bind]; [|exists code; reflexivity].
    destruct (mchk_weights L (mchk_channels c channels)) as [ws|code] eqn:Ep; cbn [bind].
    2:{ destruct cs as [|calls cs]; cbn [run_loop]; [exact Ep|]. rewrite Ep. cbn [bind]. exists code. reflexivity. }
    assert (Hag : agree (mchk_channels c channels) g ws (ranks world (mk_rank_state (mchk_channels c channels) g ws idx))).
    { unfold ranks, agree. apply Forall_forall. intros st Hst. apply repeat_spec in Hst. subst st. cbn. auto. }
    exact (gen_loop (mchk NumR) (list R) (mcres_mc NumR) world perm sub_calls_multi_channel (N.of_nat d + 1) ps
             (fun ws : list NumR => mc_step strm ps f mp d ws (cumulative ws) (enabled ws)) (@length R) (fun ws pl ex => mk_mcres_mc pl ex ws)
             (@m_plain NumR) (@m_adj NumR) (fun _ _ _ => eq_refl) (fun _ _ _ _ => eq_refl) mchk_add cbm (mc_ref L) triv Hw sub_mc_ok Hperm
             (mc_sim d) (mchk_weights L) cbs Hcbs
             (fun c a pl ex g => proj1 (mchk_weights_after_add L c (mk_mcres_mc pl ex a) g)) (mc_refine_ok L)
             cs (ranks world (mk_rank_state (mchk_channels c channels) g ws idx)) [] (mchk_channels c channels) g ws idxs []
             Hcs (repeat_length _ _) Hag I Ep).
  Qed.
End Instances.

(** ** non-vacuity *)
From Coq Require String.
Definition ex04s_strm (n : N) : NumR := IZR (Z.of_N n) / 8.
Definition ex04s_ps : list (dparams NumR) := [make_dparams1 (K:=NumR) 2 0 1 String.EmptyString].
Definition ex04s_mp : mcmap NumR := mk_mcmap (K:=NumR) (fun _ _ us _ => us) (fun _ ch _ _ _ => (1, [1; 1])).

Lemma ex04s_mp_ok : map_ignores_counter ex04s_mp.
Proof. split; intros; reflexivity. Qed.

Lemma ex04s_plain_total calls g idx : exists r g' idx' evs, plain_iteration ex04s_strm ex04s_ps ex04_fR 1 calls g idx = Ok (r, g', idx', evs).
Proof.
  unfold plain_iteration.
  assert (H : exists s, iter_loop (plain_step ex04s_strm ex04s_ps ex04_fR 1) calls (mk_itst g idx (acc_init ex04s_ps) [] []) = Ok s).
  { induction calls as [|n [s IH]] using N.peano_ind.
    - eexists. apply iter_loop_0.
    - rewrite iter_loop_succ, IH. cbn [bind]. unfold plain_step, finish_call. cbn [ex04_fR i_fills do_fills bind].
      destruct (invoke_main _ _ _) as [m v]. cbn [bind]. eexists. reflexivity. }
  destruct H as [s H]. rewrite H. cbn [bind]. do 4 eexists. reflexivity.
Qed.

(* two ranks, reduction order 1,0, three calls, one distribution: the hypotheses of the iteration theorem hold,
   both sides are defined and every rank ends with the serial checkpoint *)
Lemma c04s_example :
  world_ok 2 /\ Permutation [1; 0]%N (iotaN 0 (N.to_nat 2)) /\ ignores_counter ex04_fR /\
  exists rser gser idxser evser sts' logs,
    plain_iteration ex04s_strm ex04s_ps ex04_fR 1 3 0 7 = Ok (rser, gser, idxser, evser) /\
    mpi_iteration (pchk NumR) unit (plainres NumR) 2 [1; 0]%N sub_calls_plain (N.of_nat 1)
      (plain_li ex04s_strm ex04s_ps ex04_fR 1) (fun r => r) (fun _ => []) (fun _ pl _ => pl) base_add (fun _ _ => true) noref
      3 (ranks 2 (mk_rank_state (base_init 0) 0%N tt 5%N)) = Ok (sts', logs, true) /\
    agree (base_add (base_init 0) rser gser) gser tt sts' /\ length sts' = 2%nat.
Proof.
  assert (Hw : world_ok 2) by (unfold world_ok; lia).
  assert (Hp : Permutation [1; 0]%N (iotaN 0 (N.to_nat 2))) by (apply perm_swap).
  split; [exact Hw|]. split; [exact Hp|]. split; [exact ex04_fR_ok|].
  pose proof (c04s_plain_iteration ex04s_strm ex04s_ps ex04_fR ex04_fR_ok 2 [1; 0]%N Hw Hp 1 (fun _ _ => true) 3
                (ranks 2 (mk_rank_state (base_init 0) 0%N tt 5%N)) (base_init 0) 0%N 7%N) as H.
  destruct (ex04s_plain_total 3 0 7) as (r & g' & i' & e & E). rewrite E in H.
  destruct H as (_ & sts' & logs & E1 & Hag & Hl & _).
  - intros ? ? ?. reflexivity.
  - lia.
  - reflexivity.
  - unfold ranks, agree. apply Forall_forall. intros st Hst. apply repeat_spec in Hst. subst st. cbn. auto.
  - exists r, g', i', e, sts', logs. auto.
Qed.
