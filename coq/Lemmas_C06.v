(** Lemmas for C06: non-finite evaluations are counted but never contaminate.
    The "zeroed twin" of an integrand, the relation "equal except for the non-zero counter of the main
    accumulator", and the proofs that one call, one iteration and a whole run preserve it.
    Statements: Properties_C06.v. *)
From Coq Require Import ZArith NArith List Bool Lia.
From HepMC Require Import Num NumB Translated Result Accum VegasPdf Discrete MultiChannel Helper Iter Chkpt Callback Run
  Lemmas_Run Lemmas_C02.
Import ListNotations.

(** ** results of model functions related up to a relation on the values (same UB code otherwise) *)
Definition res_rel {A B} (R : A -> B -> Prop) (x : res A) (y : res B) : Prop :=
  match x, y with
  | Ok a, Ok b => R a b
  | UB c, UB c' => c = c'
  | _, _ => False
  end.

Lemma res_rel_bind {A B A' B'} (R : A -> B -> Prop) (S : A' -> B' -> Prop) x y f g :
  res_rel R x y -> (forall a b, R a b -> res_rel S (f a) (g b)) -> res_rel S (bind x f) (bind y g).
Proof. destruct x, y; cbn; intros H Hf; try contradiction; auto. Qed.

Lemma res_rel_eq {A} (x : res A) : res_rel eq x x.
Proof. destruct x; cbn; reflexivity. Qed.

Lemma res_rel_Ok_l {A B} (R : A -> B -> Prop) a y : res_rel R (Ok a) y -> exists b, y = Ok b /\ R a b.
Proof. destruct y; cbn; intros H; [eauto|contradiction]. Qed.

Lemma res_rel_Ok_r {A B} (R : A -> B -> Prop) x b : res_rel R x (Ok b) -> exists a, x = Ok a /\ R a b.
Proof. destruct x; cbn; intros H; [eauto|contradiction]. Qed.

Lemma res_rel_UB_l {A B} (R : A -> B -> Prop) c y : res_rel R (UB c) y -> y = UB c.
Proof. destruct y; cbn; intros H; [contradiction|congruence]. Qed.

Lemma res_rel_impl {A B} (R S : A -> B -> Prop) x y : (forall a b, R a b -> S a b) -> res_rel R x y -> res_rel S x y.
Proof. destruct x, y; cbn; auto. Qed.

Lemma Forall2_length' {A B} (R : A -> B -> Prop) l1 l2 : Forall2 R l1 l2 -> length l1 = length l2.
Proof. induction 1; cbn; congruence. Qed.

Lemma Forall2_rev' {A B} (R : A -> B -> Prop) l1 l2 : Forall2 R l1 l2 -> Forall2 R (rev l1) (rev l2).
Proof. induction 1; cbn; [constructor|]. apply Forall2_app; [assumption|constructor; [assumption|constructor]]. Qed.

Section Twin.
  Context {K : Num}.

  (** the only fact about the numeric type that is used: zero compares equal to itself *)
  Definition zero_eq_zero : Prop := eqb K (zero K) (zero K) = true.

  (** *** the zeroed twin of an integrand *)
  Definition fill_val (fl : fill K) : K := match fl with Fill1 _ _ v => v | Fill2 _ _ _ v => v end.
  (* a call is poisoned: the value is non-zero and its product with the point weight is not finite *)
  Definition poisoned (v w : K) : bool := neqb v (zero K) && negb (isfinite K (mul K v w)).
  (* returns zero at exactly the poisoned calls, and does not make the fills whose product with the weight
     is not finite; everything else (including what it asks of the point) is unchanged *)
  Definition zeroed (f : integrand K) : integrand K := fun o =>
    let r := f o in
    mk_iret (if poisoned (i_val r) (o_weight o) then zero K else i_val r)
            (filter (fun fl => isfinite K (mul K (fill_val fl) (o_weight o))) (i_fills r))
            (i_wants r).

  (** *** "equal except for the non-zero counter of the main accumulator" *)
  Definition cell_eq_nz (a b : cell K) : Prop :=
    c_sum a = c_sum b /\ c_sumsq a = c_sumsq b /\ c_comp a = c_comp b /\ c_fin a = c_fin b.
  Definition acc_eq_nz (a b : accst K) : Prop := cell_eq_nz (a_main a) (a_main b) /\ a_dists a = a_dists b.
  (* iteration states: generator, call counter, adjustment data, distribution cells equal; the integrand
     saw the same points; the map-density events of the trace are not compared *)
  Definition itst_eq_nz (s t : itst K) : Prop :=
    it_g s = it_g t /\ it_idx s = it_idx t /\ acc_eq_nz (it_acc s) (it_acc t) /\ it_adj s = it_adj t /\
    call_obs (it_tr s) = call_obs (it_tr t).
  Definition mcres_eq_nz (r s : mcres K) : Prop :=
    r_calls r = r_calls s /\ r_fin r = r_fin s /\ r_sum r = r_sum s /\ r_sumsq r = r_sumsq s.
  Definition plain_eq_nz (r s : plainres K) : Prop := mcres_eq_nz (p_main r) (p_main s) /\ p_dists r = p_dists s.
  Definition vegas_eq_nz (r s : vegasres K) : Prop :=
    plain_eq_nz (v_plain r) (v_plain s) /\ v_pdf r = v_pdf s /\ v_adj r = v_adj s.
  Definition mc_eq_nz (r s : mcres_mc K) : Prop :=
    plain_eq_nz (m_plain r) (m_plain s) /\ m_adj r = m_adj s /\ m_weights r = m_weights s.

  Lemma cell_eq_nz_refl a : cell_eq_nz a a.
  Proof. repeat split. Qed.
  Lemma mcres_eq_nz_refl r : mcres_eq_nz r r.
  Proof. repeat split. Qed.
  Lemma plain_eq_nz_refl r : plain_eq_nz r r.
  Proof. split; [apply mcres_eq_nz_refl|reflexivity]. Qed.
  Lemma vegas_eq_nz_refl r : vegas_eq_nz r r.
  Proof. split; [apply plain_eq_nz_refl|auto]. Qed.
  Lemma mc_eq_nz_refl r : mc_eq_nz r r.
  Proof. split; [apply plain_eq_nz_refl|auto]. Qed.

  (** *** one accumulator call *)
  (* poisoned value against zero: identical sums, squares, compensation, finite counter and returned
     value (zero); the poisoned call increments the non-zero counter, the twin does not *)
  Lemma c06_invoke_main_twin (a : cell K) v w :
    zero_eq_zero -> neqb v (zero K) = true -> isfinite K (mul K v w) = false ->
    invoke_main a v w = (cell_nonfinite a, zero K) /\
    invoke_main a (zero K) w = (a, zero K) /\
    cell_eq_nz (cell_nonfinite a) a /\ c_nz (cell_nonfinite a) = (c_nz a + 1)%N.
  Proof.
    intros Hz Hv Hf. unfold invoke_main. rewrite Hv, Hf. unfold neqb. rewrite Hz. cbn.
    repeat split.
  Qed.

  Lemma cell_add_eq_nz a b x : cell_eq_nz a b -> cell_eq_nz (cell_add a x) (cell_add b x).
  Proof.
    intros (H1 & H2 & H3 & H4). unfold cell_add. rewrite H1, H2, H3.
    destruct (accumulate K (c_sum b) (c_sumsq b) (c_comp b) x) as [[s ss] cp].
    unfold cell_eq_nz. cbn. rewrite H4. auto.
  Qed.

  (* from related cells, with the twin's value *)
  Lemma invoke_main_rel a b v w : zero_eq_zero -> cell_eq_nz a b ->
    cell_eq_nz (fst (invoke_main a v w)) (fst (invoke_main b (if poisoned v w then zero K else v) w)) /\
    snd (invoke_main a v w) = snd (invoke_main b (if poisoned v w then zero K else v) w).
  Proof.
    intros Hz Hab. unfold poisoned. destruct (neqb v (zero K)) eqn:Ev; cbn [andb].
    - destruct (isfinite K (mul K v w)) eqn:Ef; cbn [negb].
      + unfold invoke_main. rewrite Ev, Ef. cbn. split; [apply cell_add_eq_nz; exact Hab|reflexivity].
      + destruct (c06_invoke_main_twin a v w Hz Ev Ef) as (E1 & _ & _).
        destruct (c06_invoke_main_twin b v w Hz Ev Ef) as (_ & E2 & _).
        rewrite E1, E2. cbn. split; [|reflexivity].
        destruct Hab as (H1 & H2 & H3 & H4). unfold cell_eq_nz, cell_nonfinite. cbn. auto.
    - unfold invoke_main. rewrite Ev. cbn. auto.
  Qed.

  (** *** fills: a non-finite fill is no fill *)
  Lemma c06_fill1d_nonfinite ps ds idx x (v : K) : isfinite K v = false -> fill1d ps ds idx x v = Ok ds.
  Proof. intros H. unfold fill1d. rewrite H. reflexivity. Qed.
  Lemma c06_fill2d_nonfinite ps ds idx x y (v : K) : isfinite K v = false -> fill2d ps ds idx x y v = Ok ds.
  Proof. intros H. unfold fill2d. rewrite H. reflexivity. Qed.

  Lemma do_fill_nonfinite ps w ds fl : isfinite K (mul K (fill_val fl) w) = false -> do_fill ps w ds fl = Ok ds.
  Proof.
    destruct fl; cbn [fill_val do_fill]; intros H; [apply c06_fill1d_nonfinite|apply c06_fill2d_nonfinite]; exact H.
  Qed.

  Lemma c06_do_fills_filter ps w fs : forall ds,
    do_fills ps w ds (filter (fun fl => isfinite K (mul K (fill_val fl) w)) fs) = do_fills ps w ds fs.
  Proof.
    induction fs as [|fl fs IH]; intros ds; [reflexivity|]. cbn [filter do_fills].
    destruct (isfinite K (mul K (fill_val fl) w)) eqn:E.
    - cbn [do_fills]. destruct (do_fill ps w ds fl); cbn [bind]; [apply IH|reflexivity].
    - rewrite (do_fill_nonfinite _ _ _ _ E). cbn [bind]. apply IH.
  Qed.

  Lemma call_obs_cons (e : event K) l : call_obs (e :: l) = ev_obs e ++ call_obs l.
  Proof. reflexivity. Qed.

  (** *** one call *)
  Variable strm : N -> K.
  Variable ps : list (dparams K).
  Variable f : integrand K.
  Hypothesis Hz : zero_eq_zero.

  Definition av_rel (x y : accst K * K) : Prop := acc_eq_nz (fst x) (fst y) /\ snd x = snd y.

  Lemma finish_call_twin s t o : acc_eq_nz (it_acc s) (it_acc t) ->
    res_rel av_rel (finish_call ps s o (f o)) (finish_call ps t o (zeroed f o)).
  Proof.
    intros [Hm Hd]. unfold finish_call, zeroed. cbn [i_fills i_val]. rewrite c06_do_fills_filter, Hd.
    destruct (do_fills ps (o_weight o) (a_dists (it_acc t)) (i_fills (f o))) as [ds|c]; cbn [bind res_rel]; [|reflexivity].
    destruct (invoke_main_rel (a_main (it_acc s)) (a_main (it_acc t)) (i_val (f o)) (o_weight o) Hz Hm) as [H1 H2].
    destruct (invoke_main (a_main (it_acc s)) (i_val (f o)) (o_weight o)) as [m v].
    destruct (invoke_main (a_main (it_acc t)) _ (o_weight o)) as [m' v']. cbn in *.
    split; [split; [exact H1|reflexivity]|exact H2].
  Qed.

  Lemma c06_plain_step_twin d s t : itst_eq_nz s t ->
    res_rel itst_eq_nz (plain_step strm ps f d s) (plain_step strm ps (zeroed f) d t).
  Proof.
    intros (Hg & Hi & Ha & Hadj & Htr). unfold plain_step. rewrite Hg, Hi.
    eapply res_rel_bind; [apply finish_call_twin; exact Ha|].
    intros [a v] [b v'] [H1 H2]. cbn in H1, H2. cbn [res_rel]. unfold itst_eq_nz.
    cbn [it_g it_idx it_acc it_adj it_tr]. rewrite !call_obs_cons, Hadj, Htr. auto.
  Qed.

  Lemma c06_vegas_step_twin p s t : itst_eq_nz s t ->
    res_rel itst_eq_nz (vegas_step strm ps f p s) (vegas_step strm ps (zeroed f) p t).
  Proof.
    intros (Hg & Hi & Ha & Hadj & Htr). unfold vegas_step. rewrite Hg, Hi, Hadj.
    destruct (icdf p (draws strm (it_g t) (N.to_nat (pdf_dims p)))) as [[[xs bs] w]|c]; cbn [bind res_rel]; [|reflexivity].
    eapply res_rel_bind; [apply finish_call_twin; exact Ha|].
    intros [a v] [b v'] [H1 H2]. cbn in H1, H2. subst v'.
    destruct (add_squares (it_adj t) (pdf_bins p) 0 bs (mul K v v)) as [adj|c]; cbn [bind res_rel]; [|reflexivity].
    unfold itst_eq_nz. cbn [it_g it_idx it_acc it_adj it_tr]. rewrite !call_obs_cons, Htr. auto.
  Qed.

  Variable mp : mcmap K.

  Lemma c06_mc_step_twin d ws cum en s t : itst_eq_nz s t ->
    res_rel itst_eq_nz (mc_step strm ps f mp d ws cum en s) (mc_step strm ps (zeroed f) mp d ws cum en t).
  Proof.
    intros (Hg & Hi & Ha & Hadj & Htr). unfold mc_step. rewrite Hg, Hi, Hadj.
    destruct (m_dens mp _ _ _ _ _) as [jac dens].
    destruct (mc_weight jac ws dens) as [w|c]; cbn [bind res_rel]; [|reflexivity].
    eapply res_rel_bind; [apply finish_call_twin; exact Ha|].
    intros [a v] [b v'] [H1 H2]. cbn in H1, H2. subst v'.
    destruct (if eqb K v (zero K) then Ok (it_adj t) else add_dens (it_adj t) dens (mul K (mul K v v) w)) as [adj|c];
      cbn [bind res_rel]; [|reflexivity].
    unfold itst_eq_nz. cbn [it_g it_idx it_acc it_adj it_tr].
    rewrite !call_obs_app, !call_obs_repeat_dens, !call_obs_cons, Htr. auto.
  Qed.

  (** *** the call loop and the three iterations *)
  Lemma iter_loop_twin (step1 step2 : itst K -> res (itst K)) :
    (forall s t, itst_eq_nz s t -> res_rel itst_eq_nz (step1 s) (step2 t)) ->
    forall n s t, itst_eq_nz s t -> res_rel itst_eq_nz (iter_loop step1 n s) (iter_loop step2 n t).
  Proof.
    intros Hs n s t Hst. induction n as [|n IH] using N.peano_ind.
    - rewrite !iter_loop_0. exact Hst.
    - rewrite !iter_loop_succ. eapply res_rel_bind; [exact IH|exact Hs].
  Qed.

  Lemma acc_result_twin a b calls : acc_eq_nz a b -> plain_eq_nz (acc_result ps a calls) (acc_result ps b calls).
  Proof.
    intros [(H1 & H2 & H3 & H4) Hd]. unfold acc_result, plain_eq_nz, mcres_eq_nz, cell_result. cbn. rewrite Hd. auto.
  Qed.

  Lemma init_rel g idx adj : itst_eq_nz (mk_itst g idx (acc_init ps) adj []) (mk_itst g idx (acc_init ps) adj []).
  Proof. unfold itst_eq_nz, acc_eq_nz. cbn. repeat split. Qed.

  (* results related, same generator position, same call counter, the integrand saw the same points *)
  Definition out_rel {R} (RR : R -> R -> Prop) (x y : R * N * N * list (event K)) : Prop :=
    let '(r1, g1, i1, e1) := x in let '(r2, g2, i2, e2) := y in
    RR r1 r2 /\ g1 = g2 /\ i1 = i2 /\ call_obs e1 = call_obs e2.

  Lemma c06_plain_iteration_twin d calls g idx :
    res_rel (out_rel plain_eq_nz) (plain_iteration strm ps f d calls g idx)
                                  (plain_iteration strm ps (zeroed f) d calls g idx).
  Proof.
    unfold plain_iteration. eapply res_rel_bind.
    - apply iter_loop_twin; [intros; apply c06_plain_step_twin; assumption|apply init_rel].
    - intros s t (Hg & Hi & Ha & Hadj & Htr). cbn [res_rel out_rel].
      split; [apply acc_result_twin; exact Ha|]. rewrite !call_obs_rev, Htr. auto.
  Qed.

  Lemma c06_vegas_iteration_twin p calls g idx :
    res_rel (out_rel vegas_eq_nz) (vegas_iteration strm ps f p calls g idx)
                                  (vegas_iteration strm ps (zeroed f) p calls g idx).
  Proof.
    unfold vegas_iteration. eapply res_rel_bind.
    - apply iter_loop_twin; [intros; apply c06_vegas_step_twin; assumption|apply init_rel].
    - intros s t (Hg & Hi & Ha & Hadj & Htr). cbn [res_rel out_rel].
      split; [split; [apply acc_result_twin; exact Ha|cbn; auto]|]. rewrite !call_obs_rev, Htr. auto.
  Qed.

  Lemma c06_mc_iteration_twin d ws calls g idx :
    res_rel (out_rel mc_eq_nz) (mc_iteration strm ps f mp d ws calls g idx)
                               (mc_iteration strm ps (zeroed f) mp d ws calls g idx).
  Proof.
    unfold mc_iteration. eapply res_rel_bind.
    - apply iter_loop_twin; [intros; apply c06_mc_step_twin; assumption|apply init_rel].
    - intros s t (Hg & Hi & Ha & Hadj & Htr). cbn [res_rel out_rel].
      split; [split; [apply acc_result_twin; exact Ha|cbn; auto]|]. rewrite !call_obs_rev, Htr. auto.
  Qed.
End Twin.

(** ** the driver loop, generically *)
Section RunTwin.
  Variables (C R E : Type).
  Variables (iter1 iter2 : C -> N -> N -> N -> res (R * N * N * list E)).
  Variable add : C -> R -> N -> C.
  Variable cb : C -> bool.
  Variable RC : C -> C -> Prop.
  Variable RR : R -> R -> Prop.
  Variable RE : list E -> list E -> Prop.

  Definition iter_rel (x y : R * N * N * list E) : Prop :=
    let '(r1, g1, i1, e1) := x in let '(r2, g2, i2, e2) := y in RR r1 r2 /\ g1 = g2 /\ i1 = i2 /\ RE e1 e2.
  (* log entries: related events, related checkpoints handed to the callback, same answer *)
  Definition log_rel (l1 l2 : iterlog C E) : Prop :=
    RE (il_events l1) (il_events l2) /\ RC (il_chk l1) (il_chk l2) /\ il_continue l1 = il_continue l2.
  Definition run_rel (x y : C * N * list (iterlog C E)) : Prop :=
    let '(c1, i1, l1) := x in let '(c2, i2, l2) := y in RC c1 c2 /\ i1 = i2 /\ Forall2 log_rel l1 l2.

  Hypothesis Hiter : forall c1 c2 calls g idx, RC c1 c2 -> res_rel iter_rel (iter1 c1 calls g idx) (iter2 c2 calls g idx).
  Hypothesis Hadd : forall c1 c2 r1 r2 g, RC c1 c2 -> RR r1 r2 -> RC (add c1 r1 g) (add c2 r2 g).
  Hypothesis Hcb : forall c1 c2, RC c1 c2 -> cb c1 = cb c2.

  Lemma run_loop_twin cs : forall c1 c2 g idx log1 log2, RC c1 c2 -> Forall2 log_rel log1 log2 ->
    res_rel run_rel (run_loop C R E iter1 add cb cs c1 g idx log1) (run_loop C R E iter2 add cb cs c2 g idx log2).
  Proof.
    induction cs as [|calls cs IH]; intros c1 c2 g idx log1 log2 Hc Hl; cbn [run_loop].
    - cbn. split; [exact Hc|]. split; [reflexivity|]. apply Forall2_rev'. exact Hl.
    - eapply res_rel_bind; [apply Hiter; exact Hc|].
      intros [[[r1 g1] i1] e1] [[[r2 g2] i2] e2] (Hr & <- & <- & He).
      pose proof (Hadd _ _ _ _ g1 Hc Hr) as Hc'. rewrite (Hcb _ _ Hc').
      assert (Hl' : Forall2 log_rel (mk_iterlog e1 (add c1 r1 g1) (cb (add c2 r2 g1)) :: log1)
                                    (mk_iterlog e2 (add c2 r2 g1) (cb (add c2 r2 g1)) :: log2)).
      { constructor; [|exact Hl]. unfold log_rel. cbn. auto. }
      destruct (cb (add c2 r2 g1)).
      + apply IH; assumption.
      + cbn [res_rel run_rel]. split; [exact Hc'|]. split; [reflexivity|]. apply Forall2_rev'. exact Hl'.
  Qed.

  Variable gen_of : C -> res N.
  Hypothesis Hgen : forall c1 c2, RC c1 c2 -> gen_of c1 = gen_of c2.

  Lemma run_twin cs c1 c2 idx : RC c1 c2 ->
    res_rel run_rel (run C R E gen_of iter1 add cb cs c1 idx) (run C R E gen_of iter2 add cb cs c2 idx).
  Proof.
    intros Hc. unfold run. rewrite (Hgen _ _ Hc). destruct (gen_of c2) as [g|c]; cbn [bind res_rel]; [|reflexivity].
    apply run_loop_twin; [exact Hc|constructor].
  Qed.
End RunTwin.

(** ** the three drivers *)
Section Drivers.
  Context {K : Num}.
  Context (L : Libm K).
  Variable strm : N -> K.
  Variable ps : list (dparams K).
  Variable f : integrand K.
  Hypothesis Hz : @zero_eq_zero K.

  (* checkpoints: results pairwise related, everything else (generators, parameters, first grid/weights) equal *)
  Definition base_rel {R} (RR : R -> R -> Prop) (b1 b2 : base R) : Prop :=
    Forall2 RR (b_results b1) (b_results b2) /\ b_gens b1 = b_gens b2.
  Definition pchk_rel (c1 c2 : pchk K) : Prop := base_rel plain_eq_nz c1 c2.
  Definition vchk_rel (c1 c2 : vchk K) : Prop :=
    base_rel vegas_eq_nz (vc_base c1) (vc_base c2) /\ vc_alpha c1 = vc_alpha c2 /\ vc_bins c1 = vc_bins c2 /\
    vc_first c1 = vc_first c2.
  Definition mchk_rel (c1 c2 : mchk K) : Prop :=
    base_rel mc_eq_nz (mc_base c1) (mc_base c2) /\ mc_beta c1 = mc_beta c2 /\ mc_minw c1 = mc_minw c2 /\
    mc_first c1 = mc_first c2.

  Lemma Forall2_refl {A} (R : A -> A -> Prop) : (forall a, R a a) -> forall l, Forall2 R l l.
  Proof. intros H l. induction l; constructor; auto. Qed.

  Lemma pchk_rel_refl c : pchk_rel c c.
  Proof. split; [apply Forall2_refl, plain_eq_nz_refl|reflexivity]. Qed.
  Lemma vchk_rel_refl c : vchk_rel c c.
  Proof. split; [split; [apply Forall2_refl, vegas_eq_nz_refl|reflexivity]|auto]. Qed.
  Lemma mchk_rel_refl c : mchk_rel c c.
  Proof. split; [split; [apply Forall2_refl, mc_eq_nz_refl|reflexivity]|auto]. Qed.

  Lemma base_add_rel {R} (RR : R -> R -> Prop) b1 b2 r1 r2 g :
    base_rel RR b1 b2 -> RR r1 r2 -> base_rel RR (base_add b1 r1 g) (base_add b2 r2 g).
  Proof.
    intros [H1 H2] Hr. unfold base_rel, base_add. cbn. rewrite H2. split; [|reflexivity].
    apply Forall2_app; [exact H1|constructor; [exact Hr|constructor]].
  Qed.

  Lemma base_gen_rel {R} (RR : R -> R -> Prop) (b1 b2 : base R) : base_rel RR b1 b2 -> base_gen b1 = base_gen b2.
  Proof. intros [_ H]. unfold base_gen. rewrite H. reflexivity. Qed.

  (* the next grid / weights are functions of fields that are equal in related checkpoints *)
  Lemma vchk_pdf_rel c1 c2 : vchk_rel c1 c2 -> vchk_pdf L c1 = vchk_pdf L c2.
  Proof.
    intros ([Hr _] & Ha & _ & Hf). unfold vchk_pdf. apply Forall2_rev' in Hr.
    destruct Hr as [|r1 r2 l1 l2 (_ & Hp & Hadj) _]; [rewrite Hf; reflexivity|]. rewrite Hp, Hadj, Ha. reflexivity.
  Qed.

  Lemma mchk_weights_rel c1 c2 : mchk_rel c1 c2 -> mchk_weights L c1 = mchk_weights L c2.
  Proof.
    intros ([Hr _] & Hb & Hm & Hf). unfold mchk_weights. apply Forall2_rev' in Hr.
    destruct Hr as [|r1 r2 l1 l2 (_ & Hadj & Hw) _]; [rewrite Hf; reflexivity|]. rewrite Hw, Hadj, Hb, Hm. reflexivity.
  Qed.

  Lemma vchk_dimensions_rel c1 c2 d : vchk_rel c1 c2 -> vchk_rel (vchk_dimensions c1 d) (vchk_dimensions c2 d).
  Proof.
    intros H. pose proof H as ([Hr Hg] & Ha & Hb & Hf). unfold vchk_dimensions. rewrite Hf.
    destruct Hr as [|r1 r2 l1 l2 Hr0 Hr']; [|exact H].
    destruct (vc_first c2); [exact H|].
    unfold vchk_rel, base_rel. cbn. rewrite Ha, Hb, Hg. repeat split; auto.
    destruct H as ([Hr _] & _). exact Hr.
  Qed.

  Lemma mchk_channels_rel c1 c2 n : mchk_rel c1 c2 -> mchk_rel (mchk_channels c1 n) (mchk_channels c2 n).
  Proof.
    intros H. pose proof H as ([Hr Hg] & Hb & Hm & Hf). unfold mchk_channels. rewrite Hf.
    destruct (mc_first c2); [|exact H].
    unfold mchk_rel, base_rel. cbn. rewrite Hb, Hm, Hg. repeat split; auto.
  Qed.

  Definition ev_rel (e1 e2 : list (event K)) : Prop := call_obs e1 = call_obs e2.

  Lemma out_rel_iter_rel {R} (RR : R -> R -> Prop) x y : out_rel RR x y -> iter_rel R (event K) RR ev_rel x y.
  Proof. destruct x as [[[r1 g1] i1] e1], y as [[[r2 g2] i2] e2]. cbn. auto. Qed.

  (** *** PLAIN *)
  Lemma c06_plain_run_twin d cb cs c1 c2 idx :
    (forall a b, pchk_rel a b -> cb a = cb b) -> pchk_rel c1 c2 ->
    res_rel (run_rel (pchk K) (event K) pchk_rel ev_rel)
            (plain_run strm ps f d cb cs c1 idx) (plain_run strm ps (zeroed f) d cb cs c2 idx).
  Proof.
    intros Hcb Hc. unfold plain_run.
    apply (run_twin (pchk K) (plainres K) (event K) _ _ base_add cb pchk_rel plain_eq_nz ev_rel).
    - intros a b calls g i _. eapply res_rel_impl; [apply out_rel_iter_rel|]. apply c06_plain_iteration_twin. exact Hz.
    - intros a b r1 r2 g Hab Hr. apply base_add_rel; assumption.
    - exact Hcb.
    - intros a b Hab. eapply base_gen_rel. exact Hab.
    - exact Hc.
  Qed.

  (** *** VEGAS *)
  Lemma vchk_add_rel c1 c2 r1 r2 g : vchk_rel c1 c2 -> vegas_eq_nz r1 r2 -> vchk_rel (vchk_add c1 r1 g) (vchk_add c2 r2 g).
  Proof.
    intros (Hb & H2) Hr. unfold vchk_add, vchk_rel. cbn. split; [apply base_add_rel; assumption|exact H2].
  Qed.

  Lemma c06_vegas_run_twin d cb cs c1 c2 idx :
    (forall a b, vchk_rel a b -> cb a = cb b) -> vchk_rel c1 c2 ->
    res_rel (run_rel (vchk K) (event K) vchk_rel ev_rel)
            (vegas_run L strm ps f d cb cs c1 idx) (vegas_run L strm ps (zeroed f) d cb cs c2 idx).
  Proof.
    intros Hcb Hc. unfold vegas_run.
    apply (run_twin (vchk K) (vegasres K) (event K) _ _ vchk_add cb vchk_rel vegas_eq_nz ev_rel).
    - intros a b calls g i Hab. rewrite (vchk_pdf_rel _ _ Hab).
      destruct (vchk_pdf L b) as [p|c]; cbn [bind res_rel]; [|reflexivity].
      eapply res_rel_impl; [apply out_rel_iter_rel|]. apply c06_vegas_iteration_twin. exact Hz.
    - intros a b r1 r2 g Hab Hr. apply vchk_add_rel; assumption.
    - exact Hcb.
    - intros a b [Hab _]. eapply base_gen_rel. exact Hab.
    - apply vchk_dimensions_rel. exact Hc.
  Qed.

  (** *** multi-channel *)
  Variable mp : mcmap K.

  Lemma mchk_add_rel c1 c2 r1 r2 g : mchk_rel c1 c2 -> mc_eq_nz r1 r2 -> mchk_rel (mchk_add c1 r1 g) (mchk_add c2 r2 g).
  Proof.
    intros (Hb & H2) Hr. unfold mchk_add, mchk_rel. cbn. split; [apply base_add_rel; assumption|exact H2].
  Qed.

  Lemma c06_mc_run_twin d channels cb cs c1 c2 idx :
    (forall a b, mchk_rel a b -> cb a = cb b) -> mchk_rel c1 c2 ->
    res_rel (run_rel (mchk K) (event K) mchk_rel ev_rel)
            (mc_run L strm ps f mp d channels cb cs c1 idx) (mc_run L strm ps (zeroed f) mp d channels cb cs c2 idx).
  Proof.
    intros Hcb Hc. unfold mc_run.
    apply (run_twin (mchk K) (mcres_mc K) (event K) _ _ mchk_add cb mchk_rel mc_eq_nz ev_rel).
    - intros a b calls g i Hab. rewrite (mchk_weights_rel _ _ Hab).
      destruct (mchk_weights L b) as [ws|c]; cbn [bind res_rel]; [|reflexivity].
      eapply res_rel_impl; [apply out_rel_iter_rel|]. apply c06_mc_iteration_twin. exact Hz.
    - intros a b r1 r2 g Hab Hr. apply mchk_add_rel; assumption.
    - exact Hcb.
    - intros a b [Hab _]. eapply base_gen_rel. exact Hab.
    - apply mchk_channels_rel. exact Hc.
  Qed.

  (** *** callbacks that respect the relation *)
  (* the built-in callback with no target precision (target not above zero, the default): always "continue" *)
  Lemma cb_plain_no_target target a b : ltb K (zero K) target = false -> cb_plain target a = cb_plain target b.
  Proof. intros H. unfold cb_plain, decide, Translated.perform_more_iterations. rewrite H. reflexivity. Qed.
  Lemma cb_vegas_no_target target a b : ltb K (zero K) target = false -> cb_vegas target a = cb_vegas target b.
  Proof. intros H. unfold cb_vegas, decide, Translated.perform_more_iterations. rewrite H. reflexivity. Qed.
  Lemma cb_mc_no_target target a b : ltb K (zero K) target = false -> cb_mc target a = cb_mc target b.
  Proof. intros H. unfold cb_mc, decide, Translated.perform_more_iterations. rewrite H. reflexivity. Qed.
End Drivers.

(** ** the built-in callback (after the repair of weighted_with_variance, /repo commit 1b97d17): a result is
    skipped when finite_calls == 0; the non-zero counters are only added up into the counter of the combined
    result, which [value] / [error] / the decision never read *)
Section Builtin.
  Context {K : Num}.

  Lemma estimators_eq_nz (r s : mcres K) : mcres_eq_nz r s -> value r = value s /\ variance r = variance s /\ error r = error s.
  Proof. intros (H1 & _ & H3 & H4). unfold error, variance, value. rewrite H1, H3, H4. auto. Qed.

  Lemma mk_result_eq_nz c n n' fi (v e : K) : mcres_eq_nz (mk_result c n fi v e) (mk_result c n' fi v e).
  Proof. unfold mk_result, create_result, mcres_eq_nz. cbn. auto. Qed.

  Definition wacc_rel (a b : wacc (K:=K)) : Prop :=
    w_calls a = w_calls b /\ w_fin a = w_fin b /\ w_est a = w_est b /\ w_var a = w_var b.

  Lemma wwv_fold_rel (rs1 rs2 : list (mcres K)) : Forall2 mcres_eq_nz rs1 rs2 ->
    forall a b, wacc_rel a b -> wacc_rel (fold_left wwv_step rs1 a) (fold_left wwv_step rs2 b).
  Proof.
    induction 1 as [|r s rs1 rs2 Hrs _ IH]; intros a b Hab; [exact Hab|]. cbn [fold_left].
    apply IH. destruct Hab as (A1 & A2 & A3 & A4).
    destruct (estimators_eq_nz _ _ Hrs) as (E1 & E2 & _). destruct Hrs as (R1 & R2 & _).
    unfold wwv_step. rewrite R2. destruct (N.eqb (r_fin s) 0); unfold wacc_rel; cbn;
      rewrite A1, A2, A3, A4, R1, ?E1, ?E2; auto.
  Qed.

  (* the combination of related result lists is related (equal except the summed non-zero counter) *)
  Lemma c06_wwv_rel (rs1 rs2 : list (mcres K)) : Forall2 mcres_eq_nz rs1 rs2 ->
    mcres_eq_nz (weighted_with_variance rs1) (weighted_with_variance rs2).
  Proof.
    intros H. unfold weighted_with_variance.
    pose proof (wwv_fold_rel _ _ H (mk_wacc 0 0 0 (zero K) (zero K)) (mk_wacc 0 0 0 (zero K) (zero K))) as Hf.
    destruct Hf as (A1 & A2 & A3 & A4); [unfold wacc_rel; cbn; tauto|].
    set (a := fold_left wwv_step rs1 _) in *. set (b := fold_left wwv_step rs2 _) in *.
    rewrite A1, A2, A3, A4. destruct (N.eqb (w_fin b) 0); apply mk_result_eq_nz.
  Qed.

  Lemma c06_decide_rel target (rs1 rs2 : list (mcres K)) : Forall2 mcres_eq_nz rs1 rs2 ->
    decide target rs1 = decide target rs2.
  Proof.
    intros H. unfold decide, rel_err_all.
    destruct (estimators_eq_nz _ _ (c06_wwv_rel _ _ H)) as (E1 & _ & E3). rewrite E1, E3. reflexivity.
  Qed.

  Lemma Forall2_map' {A B A' B'} (R : A -> B -> Prop) (S : A' -> B' -> Prop) (g : A -> A') (h : B -> B') l1 l2 :
    (forall a b, R a b -> S (g a) (h b)) -> Forall2 R l1 l2 -> Forall2 S (map g l1) (map h l2).
  Proof. intros H. induction 1; cbn; constructor; auto. Qed.

  Lemma c06_cb_plain_rel target (a b : pchk K) : pchk_rel a b -> cb_plain target a = cb_plain target b.
  Proof.
    intros [H _]. unfold cb_plain. apply c06_decide_rel.
    eapply Forall2_map'; [|exact H]. intros x y [Hm _]. exact Hm.
  Qed.

  Lemma c06_cb_vegas_rel target (a b : vchk K) : vchk_rel a b -> cb_vegas target a = cb_vegas target b.
  Proof.
    intros [[H _] _]. unfold cb_vegas. apply c06_decide_rel.
    eapply Forall2_map'; [|exact H]. intros x y [[Hm _] _]. exact Hm.
  Qed.

  Lemma c06_cb_mc_rel target (a b : mchk K) : mchk_rel a b -> cb_mc target a = cb_mc target b.
  Proof.
    intros [[H _] _]. unfold cb_mc. apply c06_decide_rel.
    eapply Forall2_map'; [|exact H]. intros x y [[Hm _] _]. exact Hm.
  Qed.

  (* scripted callbacks: the answer depends on the number of results only *)
  Lemma base_rel_length {R} (RR : R -> R -> Prop) (b1 b2 : base R) :
    base_rel RR b1 b2 -> length (b_results b1) = length (b_results b2).
  Proof. intros [H _]. eapply Forall2_length'; eauto. Qed.
  Lemma c06_scripted_respects (script : nat -> bool) :
    (forall a b : pchk K, pchk_rel a b -> script (length (b_results a)) = script (length (b_results b))) /\
    (forall a b : vchk K, vchk_rel a b ->
       script (length (b_results (vc_base a))) = script (length (b_results (vc_base b)))) /\
    (forall a b : mchk K, mchk_rel a b ->
       script (length (b_results (mc_base a))) = script (length (b_results (mc_base b)))).
  Proof.
    split; [|split].
    - intros a b H. f_equal. eapply base_rel_length; exact H.
    - intros a b [H _]. f_equal. eapply base_rel_length; exact H.
    - intros a b [H _]. f_equal. eapply base_rel_length; exact H.
  Qed.
End Builtin.

(** ** what [res_rel] says: both sides succeed with related values, or both fail the same way *)
Lemma res_rel_meaning {A B} (R : A -> B -> Prop) x y :
  res_rel R x y <-> (exists a b, x = Ok a /\ y = Ok b /\ R a b) \/ (exists c, x = UB c /\ y = UB c).
Proof.
  split.
  - destruct x as [a|c], y as [b|c']; cbn; intros H; try contradiction.
    + left. exists a, b. auto.
    + right. exists c. subst. auto.
  - intros [(a & b & -> & -> & H)|(c & -> & ->)]; cbn; auto.
Qed.

(** ** the counters: the poisoned calls are exactly the difference of the non-zero counters *)
Section Counters.
  Context {K : Num}.
  Hypothesis Hz : @zero_eq_zero K.

  Definition poisonedb (vw : K * K) : bool := poisoned (fst vw) (snd vw).
  Definition twin_val (vw : K * K) : K * K := (if poisoned (fst vw) (snd vw) then zero K else fst vw, snd vw).

  Lemma vals_zeroed (f : integrand K) evs evs' : call_obs evs = call_obs evs' ->
    vals (zeroed f) evs' = map twin_val (vals f evs).
  Proof. intros H. unfold vals. rewrite <- H, map_map. reflexivity. Qed.

  Lemma count_split (vs : list (K * K)) :
    length (filter countedb vs) = (length (filter countedb (map twin_val vs)) + length (filter poisonedb vs))%nat /\
    filter keptb (map twin_val vs) = filter keptb vs.
  Proof.
    induction vs as [|[v w] vs [IH1 IH2]]; [split; reflexivity|]. cbn [map filter].
    assert (E1 : countedb (v, w) = neqb v (zero K)) by reflexivity.
    assert (E2 : countedb (twin_val (v, w)) = neqb (if poisoned v w then zero K else v) (zero K)) by reflexivity.
    assert (E3 : poisonedb (v, w) = poisoned v w) by reflexivity.
    assert (E4 : keptb (twin_val (v, w)) = neqb (if poisoned v w then zero K else v) (zero K)
                   && isfinite K (mul K (if poisoned v w then zero K else v) w)) by reflexivity.
    assert (E5 : keptb (v, w) = neqb v (zero K) && isfinite K (mul K v w)) by reflexivity.
    assert (E6 : twin_val (v, w) = (if poisoned v w then zero K else v, w)) by reflexivity.
    rewrite E1, E2, E3, E4, E5, E6. clear E1 E2 E3 E4 E5 E6. unfold poisoned.
    destruct (neqb v (zero K)) eqn:Ev; cbn [andb].
    - destruct (isfinite K (mul K v w)) eqn:Ef; cbn [negb].
      + rewrite Ev, Ef. cbn [length andb]. rewrite IH1, IH2. split; [lia|reflexivity].
      + unfold neqb at 1 2. rewrite Hz. cbn [negb length andb]. rewrite IH1, IH2. split; [lia|reflexivity].
    - rewrite Ev. cbn [andb]. rewrite IH1, IH2. split; reflexivity.
  Qed.

  Lemma c06_nz_difference (f : integrand K) calls evs evs' m m' :
    main_spec f calls evs m -> main_spec (zeroed f) calls evs' m' -> call_obs evs = call_obs evs' ->
    r_nz m = (r_nz m' + N.of_nat (length (filter poisonedb (vals f evs))))%N /\
    r_fin m = r_fin m' /\
    r_fin m = N.of_nat (length (filter keptb (vals f evs))).
  Proof.
    intros (_ & _ & _ & Hn & Hf & _) (_ & _ & _ & Hn' & Hf' & _) He. cbv zeta in *.
    rewrite (vals_zeroed f evs evs' He) in Hn', Hf'.
    destruct (count_split (vals f evs)) as [E1 E2]. rewrite E2 in Hf'.
    rewrite Hn, Hn', Hf, Hf', E1. split; [lia|auto].
  Qed.
End Counters.

(** ** IEEE formats: everything the accumulator adds up, and every value it hands back to the integrator
    for the adjustment data, is finite *)
From Flocq Require Import Core BinarySingleNaN.
Section Finite.
  Variables prec emax : Z.
  Context (Hprec : FLX.Prec_gt_0 prec) (Hmax : Prec_lt_emax prec emax).
  Notation KB := (NumB prec emax Hprec Hmax).

  Lemma Beqb_zero_finite (v : binary_float prec emax) : Beqb v (B754_zero false) = true -> is_finite v = true.
  Proof. destruct v as [s|s| |s m e H]; cbn; try reflexivity; try discriminate; destruct s; discriminate. Qed.

  Lemma zero_eq_zero_B : @zero_eq_zero KB.
  Proof. reflexivity. Qed.

  Lemma c06_sanitised_finite_B (v w : KB) : isfinite KB (@sanitised KB v w) = true.
  Proof.
    unfold sanitised. destruct (@neqb KB v (zero KB)) eqn:Ev.
    - destruct (isfinite KB (mul KB v w)) eqn:Ef; [exact Ef|reflexivity].
    - unfold neqb in Ev. apply negb_false_iff in Ev. apply Beqb_zero_finite. exact Ev.
  Qed.

  (* the main cell only ever accumulates finite values (and every accumulated value is counted as finite) *)
  Lemma c06_kept_finite_B (vs : list (KB * KB)) : Forall (fun x => isfinite KB x = true) (map (@prod KB) (filter (@keptb KB) vs)).
  Proof.
    induction vs as [|[v w] vs IH]; [constructor|]. cbn [filter]. unfold keptb at 1. cbn [fst snd].
    destruct (@neqb KB v (zero KB)); cbn [andb]; [|exact IH].
    destruct (isfinite KB (mul KB v w)) eqn:Ef; [|exact IH]. cbn [map]. constructor; [exact Ef|exact IH].
  Qed.
End Finite.

(** ** examples in double precision *)
Definition ex06_nan : B64 := div B64 (zero B64) (zero B64).
Definition ex06_strm (n : N) : B64 := div B64 (ofN B64 (N.modulo (n * 3) 8)) (ofN B64 8).

Lemma zero_eq_zero_B64 : @zero_eq_zero B64.
Proof. reflexivity. Qed.

Lemma c06_example_poisoned :
  @neqb B64 ex06_nan (zero B64) = true /\ isfinite B64 (mul B64 ex06_nan (one B64)) = false /\ @zero_eq_zero B64.
Proof. repeat split; vm_compute; reflexivity. Qed.

(* an integrand with an all-poisoned iteration: values 1, 3 | NaN, NaN | 2, 2.5 | 1, 1 in four iterations
   of two calls *)
Definition ex06_f : integrand B64 := fun o =>
  let v := match o_idx o with
           | 0%N => one B64
           | 1%N => ofN B64 3
           | 2%N | 3%N => ex06_nan
           | 4%N => ofN B64 2
           | 5%N => div B64 (ofN B64 5) (ofN B64 2)
           | _ => one B64
           end in
  mk_iret v [] false.
Definition ex06_target : B64 := div B64 (one B64) (ofN B64 4).
Definition loglen {C E} (r : res (C * N * list (iterlog C E))) : nat :=
  match r with Ok (_, _, l) => length l | UB c => 1000 + c end.

(* before the repair of weighted_with_variance the first run performed 4 iterations and its twin 3 *)
Lemma ex06_callback_lengths :
  loglen (plain_run ex06_strm [] ex06_f 1 (cb_plain ex06_target) [2;2;2;2]%N (base_init 0) 0) = 3%nat /\
  loglen (plain_run ex06_strm [] (zeroed ex06_f) 1 (cb_plain ex06_target) [2;2;2;2]%N (base_init 0) 0) = 3%nat.
Proof. split; vm_compute; reflexivity. Qed.

(* adaptive runs (three iterations of six calls; values NaN, 0, x+1, +inf; two fills per call, one poisoned)
   with a callback that ignores the counters *)
Definition ex06_L : Libm B64 := Build_Libm B64 (fun x => x) (fun _ _ => one B64).
Definition ex06_g : integrand B64 := fun o =>
  let x := nth 0 (o_point o) (zero B64) in
  let v := match N.modulo (o_idx o) 4 with
           | 0%N => ex06_nan
           | 1%N => zero B64
           | 2%N => add B64 x (one B64)
           | _ => div B64 (one B64) (sub B64 x x)            (* +inf *)
           end in
  mk_iret v [Fill1 0 x v; Fill1 0 x (one B64)] false.
Definition ex06_ps : list (dparams B64) := [make_dparams1 2 (zero B64) (one B64) String.EmptyString].
Definition ex06_mp : mcmap B64 :=
  mk_mcmap (fun _ _ us _ => us) (fun _ ch _ _ _ => (one B64, [one B64; ofN B64 (ch + 2)])).
Definition nzs {C R E} (res_of : C -> list R) (main : R -> mcres B64) (r : res (C * N * list (iterlog C E))) : list (N * N) :=
  match r with
  | Ok (c, _, l) => map (fun r => (r_nz (main r), r_fin (main r))) (res_of c)
  | UB c => [(1000 + N.of_nat c, 0)%N]
  end.

Lemma c06_example_vegas_run :
  nzs (fun c => b_results (vc_base c)) (fun r => p_main (v_plain r))
      (vegas_run ex06_L ex06_strm ex06_ps ex06_g 2 (fun _ => true) [6;6;6]%N (vchk_default 2 (one B64) 0) 0)
    = [(4, 1); (5, 2); (4, 1)]%N /\
  nzs (fun c => b_results (vc_base c)) (fun r => p_main (v_plain r))
      (vegas_run ex06_L ex06_strm ex06_ps (zeroed ex06_g) 2 (fun _ => true) [6;6;6]%N (vchk_default 2 (one B64) 0) 0)
    = [(1, 1); (2, 2); (1, 1)]%N.
Proof. split; vm_compute; reflexivity. Qed.

Lemma c06_example_mc_run :
  nzs (fun c => b_results (mc_base c)) (fun r => p_main (m_plain r))
      (mc_run ex06_L ex06_strm ex06_ps ex06_g ex06_mp 2 2 (fun _ => true) [6;6;6]%N (mchk_default (zero B64) (one B64) 0) 0)
    = [(4, 1); (5, 2); (4, 1)]%N /\
  nzs (fun c => b_results (mc_base c)) (fun r => p_main (m_plain r))
      (mc_run ex06_L ex06_strm ex06_ps (zeroed ex06_g) ex06_mp 2 2 (fun _ => true) [6;6;6]%N (mchk_default (zero B64) (one B64) 0) 0)
    = [(1, 1); (2, 2); (1, 1)]%N.
Proof. split; vm_compute; reflexivity. Qed.

(** ** the statements of Properties_C06.v, bundled *)
Lemma c06_fill_twin {K : Num} (ps : list (dparams K)) :
  (forall ds idx x v, isfinite K v = false -> fill1d ps ds idx x v = Ok ds) /\
  (forall ds idx x y v, isfinite K v = false -> fill2d ps ds idx x y v = Ok ds) /\
  (forall w fs ds, do_fills ps w ds (filter (fun fl => isfinite K (mul K (fill_val fl) w)) fs) = do_fills ps w ds fs).
Proof.
  split; [|split].
  - intros. apply c06_fill1d_nonfinite. assumption.
  - intros. apply c06_fill2d_nonfinite. assumption.
  - intros. apply c06_do_fills_filter.
Qed.

Lemma c06_step_twin {K : Num} (strm : N -> K) ps (f : integrand K) (mp : mcmap K) : @zero_eq_zero K ->
  (forall d s t, itst_eq_nz s t ->
     res_rel itst_eq_nz (plain_step strm ps f d s) (plain_step strm ps (zeroed f) d t)) /\
  (forall p s t, itst_eq_nz s t ->
     res_rel itst_eq_nz (vegas_step strm ps f p s) (vegas_step strm ps (zeroed f) p t)) /\
  (forall d ws cum en s t, itst_eq_nz s t ->
     res_rel itst_eq_nz (mc_step strm ps f mp d ws cum en s) (mc_step strm ps (zeroed f) mp d ws cum en t)).
Proof.
  intros Hz. split; [|split]; intros.
  - apply c06_plain_step_twin; assumption.
  - apply c06_vegas_step_twin; assumption.
  - apply c06_mc_step_twin; assumption.
Qed.

Lemma c06_iteration_twin {K : Num} (strm : N -> K) ps (f : integrand K) (mp : mcmap K) : @zero_eq_zero K ->
  (forall d calls g idx,
     res_rel (out_rel plain_eq_nz) (plain_iteration strm ps f d calls g idx)
                                   (plain_iteration strm ps (zeroed f) d calls g idx)) /\
  (forall p calls g idx,
     res_rel (out_rel vegas_eq_nz) (vegas_iteration strm ps f p calls g idx)
                                   (vegas_iteration strm ps (zeroed f) p calls g idx)) /\
  (forall d ws calls g idx,
     res_rel (out_rel mc_eq_nz) (mc_iteration strm ps f mp d ws calls g idx)
                                (mc_iteration strm ps (zeroed f) mp d ws calls g idx)).
Proof.
  intros Hz. split; [|split]; intros.
  - apply c06_plain_iteration_twin; assumption.
  - apply c06_vegas_iteration_twin; assumption.
  - apply c06_mc_iteration_twin; assumption.
Qed.

Lemma c06_run_twin {K : Num} (L : Libm K) (strm : N -> K) ps (f : integrand K) (mp : mcmap K) : @zero_eq_zero K ->
  (forall d cb cs c1 c2 idx, (forall a b, pchk_rel a b -> cb a = cb b) -> pchk_rel c1 c2 ->
     res_rel (run_rel (pchk K) (event K) pchk_rel ev_rel)
             (plain_run strm ps f d cb cs c1 idx) (plain_run strm ps (zeroed f) d cb cs c2 idx)) /\
  (forall d cb cs c1 c2 idx, (forall a b, vchk_rel a b -> cb a = cb b) -> vchk_rel c1 c2 ->
     res_rel (run_rel (vchk K) (event K) vchk_rel ev_rel)
             (vegas_run L strm ps f d cb cs c1 idx) (vegas_run L strm ps (zeroed f) d cb cs c2 idx)) /\
  (forall d channels cb cs c1 c2 idx, (forall a b, mchk_rel a b -> cb a = cb b) -> mchk_rel c1 c2 ->
     res_rel (run_rel (mchk K) (event K) mchk_rel ev_rel)
             (mc_run L strm ps f mp d channels cb cs c1 idx) (mc_run L strm ps (zeroed f) mp d channels cb cs c2 idx)).
Proof.
  intros Hz. split; [|split]; intros.
  - apply c06_plain_run_twin; assumption.
  - apply c06_vegas_run_twin; assumption.
  - apply c06_mc_run_twin; assumption.
Qed.

Lemma c06_rel_refl {K : Num} :
  (forall c : pchk K, pchk_rel c c) /\ (forall c : vchk K, vchk_rel c c) /\ (forall c : mchk K, mchk_rel c c).
Proof. split; [|split]; intros; [apply pchk_rel_refl|apply vchk_rel_refl|apply mchk_rel_refl]. Qed.

Lemma c06_callbacks_respect {K : Num} (target : K) :
  (forall a b : pchk K, pchk_rel a b -> cb_plain target a = cb_plain target b) /\
  (forall a b : vchk K, vchk_rel a b -> cb_vegas target a = cb_vegas target b) /\
  (forall a b : mchk K, mchk_rel a b -> cb_mc target a = cb_mc target b).
Proof. split; [|split]; [apply c06_cb_plain_rel|apply c06_cb_vegas_rel|apply c06_cb_mc_rel]. Qed.

(* [same_run RC x y]: related final checkpoints, same call counter, the same number of performed iterations,
   pairwise related log entries *)
Definition same_run {C E} (RC : C -> C -> Prop) (RE : list E -> list E -> Prop)
    (x y : C * N * list (iterlog C E)) : Prop :=
  run_rel C E RC RE x y /\ length (snd x) = length (snd y).

Lemma run_rel_same_run {C E} (RC : C -> C -> Prop) (RE : list E -> list E -> Prop) x y :
  run_rel C E RC RE x y -> same_run RC RE x y.
Proof.
  intros H. split; [exact H|]. destruct x as [[c1 i1] l1], y as [[c2 i2] l2]. destruct H as (_ & _ & H).
  cbn [snd]. eapply Forall2_length'; exact H.
Qed.

Lemma c06_run_twin_builtin {K : Num} (L : Libm K) (strm : N -> K) ps (f : integrand K) (mp : mcmap K) :
  @zero_eq_zero K -> forall target : K,
  (forall d cs c idx,
     res_rel (same_run pchk_rel ev_rel)
             (plain_run strm ps f d (cb_plain target) cs c idx)
             (plain_run strm ps (zeroed f) d (cb_plain target) cs c idx)) /\
  (forall d cs c idx,
     res_rel (same_run vchk_rel ev_rel)
             (vegas_run L strm ps f d (cb_vegas target) cs c idx)
             (vegas_run L strm ps (zeroed f) d (cb_vegas target) cs c idx)) /\
  (forall d channels cs c idx,
     res_rel (same_run mchk_rel ev_rel)
             (mc_run L strm ps f mp d channels (cb_mc target) cs c idx)
             (mc_run L strm ps (zeroed f) mp d channels (cb_mc target) cs c idx)).
Proof.
  intros Hz target. split; [|split]; intros.
  - eapply res_rel_impl; [apply run_rel_same_run|].
    apply c06_plain_run_twin; [exact Hz|apply c06_cb_plain_rel|apply pchk_rel_refl].
  - eapply res_rel_impl; [apply run_rel_same_run|].
    apply c06_vegas_run_twin; [exact Hz|apply c06_cb_vegas_rel|apply vchk_rel_refl].
  - eapply res_rel_impl; [apply run_rel_same_run|].
    apply c06_mc_run_twin; [exact Hz|apply c06_cb_mc_rel|apply mchk_rel_refl].
Qed.

Lemma c06_reported_finite_partial prec emax (Hprec : FLX.Prec_gt_0 prec) (Hmax : Prec_lt_emax prec emax) :
  let KB := NumB prec emax Hprec Hmax in
  @zero_eq_zero KB /\
  (forall v w : KB, isfinite KB (@sanitised KB v w) = true) /\
  (forall vs : list (KB * KB), Forall (fun x => isfinite KB x = true) (map (@prod KB) (filter (@keptb KB) vs))).
Proof.
  cbv zeta. split; [apply zero_eq_zero_B|]. split; [apply c06_sanitised_finite_B|apply c06_kept_finite_B].
Qed.
