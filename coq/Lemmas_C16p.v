(** Lemmas for the C16 supplement: the rank blocks [before r, before r + sub r) are a partition of the
    stream positions 0 .. total-1 (every position has exactly one owner), stated on the translated
    definitions. *)
From Coq Require Import ZArith Lia List.
From HepMC Require Import Num Translated Lemmas_C16.
Local Open Scope Z_scope.

(** a rank owns position i when i lies in the block the code gives it *)
Definition owns (total world rank i : Z) : Prop :=
  discard_before total rank world <= i < discard_before total rank world + sub_calls_plain total rank world.

Lemma before_spec_mono total world r r' :
  0 <= total -> 1 <= world -> 0 <= r <= r' -> before_spec total r world <= before_spec total r' world.
Proof.
  intros Ht Hw Hr. unfold before_spec.
  assert (0 <= total / world) by (apply Z.div_pos; lia).
  assert (total / world * r <= total / world * r') by (apply Z.mul_le_mono_nonneg_l; lia).
  assert (Z.min r (total mod world) <= Z.min r' (total mod world)) by (apply Z.min_le_compat_r; lia).
  lia.
Qed.

Lemma owns_spec total world rank i : in_range total rank world ->
  owns total world rank i <-> before_spec total rank world <= i < before_spec total (rank + 1) world.
Proof.
  intros H. unfold owns.
  rewrite (discard_before_correct _ _ _ H), (sub_calls_plain_correct _ _ _ H), (before_succ _ _ _ H). tauto.
Qed.

(** existence: scan the ranks upwards *)
Lemma owner_below total world i (n : nat) :
  0 <= total < 2 ^ 64 -> 1 <= world < 2 ^ 31 -> Z.of_nat n <= world ->
  0 <= i < before_spec total (Z.of_nat n) world ->
  exists rank, 0 <= rank < Z.of_nat n /\ owns total world rank i.
Proof.
  intros Ht Hw. induction n as [|n IH]; intros Hn Hi.
  - exfalso. change (Z.of_nat 0) with 0 in Hi. rewrite (before_zero total 0 world) in Hi by (repeat split; lia). lia.
  - destruct (Z_lt_le_dec i (before_spec total (Z.of_nat n) world)) as [Hlt|Hge].
    + destruct IH as (rank & Hr & Ho); [lia|lia|]. exists rank. split; [lia|exact Ho].
    + exists (Z.of_nat n). split; [lia|].
      apply owns_spec; [repeat split; lia|].
      replace (Z.of_nat n + 1) with (Z.of_nat (S n)) by lia. lia.
Qed.

Lemma owner_exists total world i :
  0 <= total < 2 ^ 64 -> 1 <= world < 2 ^ 31 -> 0 <= i < total ->
  exists rank, 0 <= rank < world /\ owns total world rank i.
Proof.
  intros Ht Hw Hi.
  destruct (owner_below total world i (Z.to_nat world) Ht Hw) as (rank & Hr & Ho).
  - rewrite Z2Nat.id; lia.
  - rewrite Z2Nat.id by lia. rewrite (before_world total 0 world) by (repeat split; lia). exact Hi.
  - exists rank. rewrite Z2Nat.id in Hr by lia. split; [exact Hr|exact Ho].
Qed.

(** blocks of different ranks are disjoint and ordered like the ranks *)
Lemma blocks_ordered total world r r' :
  in_range total r world -> in_range total r' world -> r < r' ->
  discard_before total r world + sub_calls_plain total r world <= discard_before total r' world.
Proof.
  intros H H' Hlt. pose proof H as (Ht & Hw & Hr).
  rewrite (discard_before_correct _ _ _ H), (sub_calls_plain_correct _ _ _ H), (before_succ _ _ _ H),
          (discard_before_correct _ _ _ H').
  apply before_spec_mono; lia.
Qed.

Lemma owner_unique total world i r r' :
  in_range total r world -> in_range total r' world ->
  owns total world r i -> owns total world r' i -> r = r'.
Proof.
  intros H H' Ho Ho'. unfold owns in *.
  destruct (Z.lt_trichotomy r r') as [Hlt|[Heq|Hgt]]; [|exact Heq|].
  - pose proof (blocks_ordered total world r r' H H' Hlt). lia.
  - pose proof (blocks_ordered total world r' r H' H Hgt). lia.
Qed.

(** an owned position is a position of the stream: no rank reaches beyond the total *)
Lemma owned_in_stream total world rank i : in_range total rank world -> owns total world rank i -> 0 <= i < total.
Proof.
  intros H Ho. pose proof H as (Ht & Hw & Hr). apply (owns_spec _ _ _ _ H) in Ho.
  pose proof (before_spec_bounds _ _ _ H).
  assert (before_spec total (rank + 1) world <= before_spec total world world) by (apply before_spec_mono; lia).
  rewrite (before_world total 0 world) in * by (repeat split; lia). lia.
Qed.

(** what a rank skips after its share is exactly what the higher ranks own *)
Lemma after_is_rest total world rank : in_range total rank world ->
  discard_after total (sub_calls_plain total rank world) rank world = total - before_spec total (rank + 1) world.
Proof.
  intros H. rewrite (sub_calls_plain_correct _ _ _ H), (discard_after_correct _ _ _ H), <- (before_succ _ _ _ H). ring.
Qed.

Lemma c16p_example : owns 10 4 2 6 /\ owns 10 4 2 7 /\ ~ owns 10 4 2 8 /\ ~ owns 10 4 2 5.
Proof. unfold owns. vm_compute. repeat split; try congruence; intros [H1 H2]; congruence. Qed.
