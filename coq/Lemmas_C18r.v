(** Lemmas for C18r: the second sentence of C18 - a killed run leaves a complete checkpoint of the run in
    the file, and resuming from it ends like the uninterrupted run.  Composition of
      - Lemmas_C18.v (file-system model Fs.v: the final name holds the old content or a complete text),
      - Lemmas_C05.v (text -> checkpoint: [deser rd_X] after [ser_X]),
      - Lemmas_C03.v (cutting a run at a performed iteration; runs from textually identical checkpoints).
    The "bytes" of the file-system model are the codec's tokens: a file content is a [list (tok K)].
    Part 1: more facts about Fs.v for an arbitrary byte type (where the crash states of a whole run lie).
    Part 2: the link texts <-> log of the run, generically.
    Part 3: cutting a run at the iteration whose checkpoint the file holds, generically.
    Part 4: the three checkpoint kinds.
    Part 5: non-vacuity on the concrete double-precision runs of Lemmas_C03.v (never unfolded). *)
From Coq Require Import String ZArith NArith Bool Lia List.
From HepMC Require Import Num Result Accum VegasPdf Discrete MultiChannel Iter Chkpt Callback Run Codec Fs
  Lemmas_Run Lemmas_C05 Lemmas_C18 Lemmas_C03.
Import ListNotations.

(* ================================================================================================ *)
(** * list facts *)
Lemma firstn_S_snoc {X} (l : list X) k d : k < List.length l -> firstn (S k) l = firstn k l ++ [nth k l d].
Proof.
  revert k. induction l as [|x l IH]; intros k Hk; [cbn in Hk; lia|].
  destruct k as [|k]; [reflexivity|]. cbn [List.length] in Hk.
  change (firstn (S (S k)) (x :: l)) with (x :: firstn (S k) l). rewrite (IH k) by lia. reflexivity.
Qed.

Lemma split_at_nth {X} (l : list X) k d : k < List.length l -> l = firstn k l ++ nth k l d :: skipn (S k) l.
Proof.
  revert k. induction l as [|x l IH]; intros k Hk; [cbn in Hk; lia|].
  destruct k as [|k]; [reflexivity|]. cbn [List.length] in Hk.
  cbn [firstn nth skipn app]. f_equal. apply IH. lia.
Qed.

Lemma map_eq_Forall2 {X Y Z} (f : X -> Z) (g : Y -> Z) (xs : list X) : forall ys : list Y,
  map f xs = map g ys -> Forall2 (fun y x => f x = g y) ys xs.
Proof.
  induction xs as [|x xs IH]; intros [|y ys] H; cbn [map] in H; try discriminate; constructor.
  - injection H as H _. exact H.
  - apply IH. injection H as _ H. exact H.
Qed.

Lemma Forall2_imp {X Y} (P Q : X -> Y -> Prop) xs ys : (forall x y, P x y -> Q x y) -> Forall2 P xs ys -> Forall2 Q xs ys.
Proof. intros HPQ. induction 1; constructor; auto. Qed.

Lemma Forall2_len {X Y} (P : X -> Y -> Prop) xs ys : Forall2 P xs ys -> List.length xs = List.length ys.
Proof. induction 1 as [|x y xs ys _ _ IH]; cbn [List.length]; [reflexivity|rewrite IH; reflexivity]. Qed.

(* ================================================================================================ *)
(** * Part 1: Fs.v, any byte type: the crash states of a whole run are exactly the crash states of its
    invocations, each started in the state the completed invocations before it left *)
Section FsMore.
  Variable A : Type.
  Notation fs := (fs A).

  Lemma crash_states_head (s : fs) ops : In s (crash_states A s ops).
  Proof. destruct ops; left; reflexivity. Qed.

  Lemma crash_states_last ops : forall s : fs, In (run_ops A s ops) (crash_states A s ops).
  Proof.
    induction ops as [|o ops IH]; intros s; [left; reflexivity|].
    cbn [crash_states]. right. apply in_or_app. right. apply (IH (apply A s o)).
  Qed.

  (* converses of [crash_states_app] *)
  Lemma crash_states_app_l ops1 ops2 : forall (s s' : fs),
    In s' (crash_states A s ops1) -> In s' (crash_states A s (ops1 ++ ops2)).
  Proof.
    induction ops1 as [|o ops1 IH]; intros s s' H.
    - destruct H as [<-|[]]. apply crash_states_head.
    - cbn [app crash_states] in *. destruct H as [H|H]; [left; exact H|]. right.
      apply in_app_or in H as [H|H]; apply in_or_app; [left; exact H|right; apply IH; exact H].
  Qed.

  Lemma crash_states_app_r ops1 ops2 : forall (s s' : fs),
    In s' (crash_states A (run_ops A s ops1) ops2) -> In s' (crash_states A s (ops1 ++ ops2)).
  Proof.
    induction ops1 as [|o ops1 IH]; intros s s' H; [exact H|].
    cbn [app crash_states]. right. apply in_or_app. right. apply IH. exact H.
  Qed.

  Lemma run_ops_app (s : fs) o1 o2 : run_ops A s (o1 ++ o2) = run_ops A (run_ops A s o1) o2.
  Proof. unfold run_ops. apply fold_left_app. Qed.

  Lemma run_writes_app filename t1 t2 :
    run_writes A filename (t1 ++ t2) = run_writes A filename t1 ++ run_writes A filename t2.
  Proof. unfold run_writes. apply flat_map_app. Qed.

  Lemma run_writes_cons filename t ts :
    run_writes A filename (t :: ts) = write_chkpt_ops A filename t ++ run_writes A filename ts.
  Proof. reflexivity. Qed.

  (** the state in which invocation k+1 of the callback starts: k invocations are complete *)
  Definition state_after (s : fs) (filename : path) (texts : list (list (list A))) (k : nat) : fs :=
    run_ops A s (run_writes A filename (firstn k texts)).

  (** where a kill can hit a run: before anything, or at a crash point of invocation k+1 *)
  Lemma crash_points filename texts : forall (s s' : fs),
    In s' (crash_states A s (run_writes A filename texts)) <->
    s' = s \/ exists k, k < List.length texts /\
      In s' (crash_states A (state_after s filename texts k) (write_chkpt_ops A filename (nth k texts []))).
  Proof.
    unfold state_after. induction texts as [|t texts IH]; intros s s'.
    - split.
      + intros [<-|[]]. left. reflexivity.
      + intros [->|(k & Hk & _)]; [left; reflexivity|cbn in Hk; lia].
    - rewrite run_writes_cons. split.
      + intros H. apply crash_states_app in H as [H|H].
        * right. exists 0. split; [cbn; lia|exact H].
        * apply IH in H as [->|(k & Hk & H)].
          -- right. exists 0. split; [cbn; lia|]. apply crash_states_last.
          -- right. exists (S k). split; [cbn [List.length]; lia|].
             cbn [firstn nth]. rewrite run_writes_cons, run_ops_app. exact H.
      + intros [->|(k & Hk & H)]; [apply crash_states_head|]. destruct k as [|k].
        * apply crash_states_app_l. exact H.
        * apply crash_states_app_r. apply IH. right. exists k. split; [cbn [List.length] in Hk; lia|].
          cbn [firstn nth] in H. rewrite run_writes_cons, run_ops_app in H. exact H.
  Qed.

  (** what the final name holds when k invocations are complete *)
  Lemma lookup_state_after (s : fs) filename texts k : k <= List.length texts ->
    lookup A (state_after s filename texts k) filename =
    match k with 0 => lookup A s filename | S k' => option_map (@List.concat A) (nth_error texts k') end.
  Proof.
    unfold state_after. intros Hk. destruct k as [|k]; [reflexivity|].
    rewrite (firstn_S_snoc texts k []) by lia. rewrite run_writes_app, run_ops_app.
    rewrite run_writes_cons. change (run_writes A filename []) with (@nil (fsop A)). rewrite app_nil_r.
    rewrite write_complete. rewrite (nth_error_nth' texts []) by lia. reflexivity.
  Qed.

  (** during invocation k+1 the final name holds what k complete invocations left, or the new text *)
  Lemma invocation_atomic (s : fs) filename texts k s' : k < List.length texts ->
    In s' (crash_states A (state_after s filename texts k) (write_chkpt_ops A filename (nth k texts []))) ->
    lookup A s' filename =
      match k with 0 => lookup A s filename | S k' => option_map (@List.concat A) (nth_error texts k') end \/
    lookup A s' filename = option_map (@List.concat A) (nth_error texts k).
  Proof.
    intros Hk H. apply write_atomic in H as [H|H].
    - left. rewrite H. apply lookup_state_after. lia.
    - right. rewrite H. rewrite (nth_error_nth' texts []) by lia. reflexivity.
  Qed.
End FsMore.

(* ================================================================================================ *)
(** * Part 2: texts <-> log entries.  [txt l t]: "t is the text of the checkpoint of log entry l";
    [written]: the i-th invocation wrote, cut into pieces in any way, the text of the i-th entry *)
Section Link.
  Variables (A B : Type).
  Variable txt : B -> list A -> Prop.
  Notation fs := (fs A).

  Definition written (ls : list B) (texts : list (list (list A))) : Prop :=
    Forall2 (fun l chunks => txt l (List.concat chunks)) ls texts.

  Lemma written_length ls texts : written ls texts -> List.length texts = List.length ls.
  Proof. intros H. symmetry. eapply Forall2_len; eauto. Qed.

  Lemma written_nth ls texts k chunks : written ls texts -> nth_error texts k = Some chunks ->
    exists l, nth_error ls k = Some l /\ txt l (List.concat chunks).
  Proof. intros H Hn. exact (Forall2_nth_error _ _ _ _ _ H Hn). Qed.

  Definition holds (ls : list B) (k : nat) (content : option (list A)) : Prop :=
    exists l t, nth_error ls k = Some l /\ txt l t /\ content = Some t.

  Lemma holds_nth ls texts k : written ls texts -> k < List.length texts ->
    holds ls k (option_map (@List.concat A) (nth_error texts k)).
  Proof.
    intros H Hk. destruct (nth_error texts k) as [chunks|] eqn:E; [|apply nth_error_None in E; lia].
    destruct (written_nth _ _ _ _ H E) as (l & Hl & Ht). exists l, (List.concat chunks). auto.
  Qed.

  Lemma file_is_a_checkpoint_gen ls texts filename (s s' : fs) :
    written ls texts ->
    In s' (crash_states A s (run_writes A filename texts)) ->
    lookup A s' filename = lookup A s filename \/ exists j, holds ls j (lookup A s' filename).
  Proof.
    intros Hw H. apply run_atomic in H as [H|(chunks & Hin & H)]; [left; exact H|right].
    apply In_nth_error in Hin as (j & Hj). exists j.
    destruct (written_nth _ _ _ _ Hw Hj) as (l & Hl & Ht). exists l, (List.concat chunks). auto.
  Qed.

  Lemma file_is_a_checkpoint_precise_gen ls texts filename (s s' : fs) :
    written ls texts ->
    In s' (crash_states A s (run_writes A filename texts)) ->
    s' = s \/
    exists k, k < List.length ls /\
      In s' (crash_states A (state_after A s filename texts k) (write_chkpt_ops A filename (nth k texts []))) /\
      (match k with 0 => lookup A s' filename = lookup A s filename | S k' => holds ls k' (lookup A s' filename) end \/
       holds ls k (lookup A s' filename)).
  Proof.
    intros Hw H. apply crash_points in H as [H|(k & Hk & H)]; [left; exact H|right].
    exists k. split; [rewrite <- (written_length _ _ Hw); exact Hk|]. split; [exact H|].
    destruct (invocation_atomic A s filename texts k s' Hk H) as [H1|H1].
    - left. destruct k as [|k]; [exact H1|]. rewrite H1. apply holds_nth; [exact Hw|lia].
    - right. rewrite H1. apply holds_nth; [exact Hw|exact Hk].
  Qed.
End Link.

(* ================================================================================================ *)
(** * Part 3: cutting a run at the iteration whose checkpoint the file holds, for any driver that
    prepares the checkpoint and then loops ([drun] of Lemmas_C03.v) *)
Section ResumeGen.
  Variables (C R Evt : Type).
  Variable gen_of : C -> res N.
  Variable iterate : C -> N -> N -> N -> res (R * N * N * list Evt).
  Variable add : C -> R -> N -> C.
  Variable cb : C -> bool.
  Hypothesis gen_add : forall c r g, gen_of (add c r g) = Ok g.
  Variable eqv : C -> C -> Prop.
  Hypothesis gen_eqv : forall c c', eqv c c' -> gen_of c = gen_of c'.
  Hypothesis it_eqv : forall c c' calls g idx, eqv c c' -> iterate c calls g idx = iterate c' calls g idx.
  Hypothesis add_eqv : forall c c' r g, eqv c c' -> eqv (add c r g) (add c' r g).
  Hypothesis cb_eqv : forall c c', eqv c c' -> cb c = cb c'.
  Variable prep : C -> C.
  Hypothesis prep_prep : forall c, prep (prep c) = prep c.
  Hypothesis prep_add : forall c r g, prep c = c -> prep (add c r g) = add c r g.
  Notation drun := (drun C R Evt gen_of iterate add cb prep).
  Notation chks := (Lemmas_Run.chks C Evt).

  (** the calls still to be made after the (j+1)-th performed iteration of a run that performed n of
      the requested [cs]: the rest of the performed ones; or, if the callback did not stop the run
      exactly there with calls left, simply the rest of [cs] *)
  Definition remaining (cs : list N) (n j : nat) (rem : list N) : Prop :=
    rem = skipn (S j) (firstn n cs) \/
    (rem = skipn (S j) cs /\ (S j < n \/ n = List.length cs)).

  Lemma nth_chks_log c (ls : list (iterlog C Evt)) j l :
    nth_error ls j = Some l -> nth (S j) (chks c ls) c = il_chk l.
  Proof.
    intros H. unfold Lemmas_Run.chks. cbn [nth]. apply nth_error_nth. apply map_nth_error. exact H.
  Qed.

  Lemma drun_length cs c idx c' idx' ls : drun cs c idx = Ok (c', idx', ls) -> List.length ls <= List.length cs.
  Proof.
    unfold Lemmas_C03.drun. intros H. apply run_exec in H as (g & rest & _ & Hex).
    pose proof (exec_length _ _ _ _ _ _ _ _ _ _ _ _ _ _ Hex). lia.
  Qed.

  Lemma drun_performed cs c idx c' idx' ls :
    drun cs c idx = Ok (c', idx', ls) -> drun (firstn (List.length ls) cs) c idx = Ok (c', idx', ls).
  Proof.
    unfold Lemmas_C03.drun. intros H. apply run_exec in H as (g & rest & Hg & Hex).
    eapply exec_run; [exact Hg|]. eapply exec_performed. exact Hex.
  Qed.

  Lemma resume_split cs c idx c' idx' ls j l rem :
    drun cs c idx = Ok (c', idx', ls) -> nth_error ls j = Some l -> remaining cs (List.length ls) j rem ->
    exists idxj, drun (firstn (S j) cs) c idx = Ok (il_chk l, idxj, firstn (S j) ls) /\
                 drun rem (il_chk l) idxj = Ok (c', idx', skipn (S j) ls).
  Proof.
    intros H Hl Hrem.
    assert (Hj : S j <= List.length ls) by (apply nth_error_Some; congruence).
    destruct Hrem as [->|[-> Hcond]].
    - pose proof (drun_length _ _ _ _ _ _ H) as Hlen.
      apply drun_performed in H.
      destruct (drun_split C R Evt gen_of iterate add cb gen_add prep prep_prep prep_add _ _ _ _ _ _ H (S j) Hj)
        as (idxj & P & Sp).
      rewrite (nth_chks_log _ _ _ _ Hl) in P, Sp. exists idxj. split.
      + rewrite firstn_firstn in P. replace (Nat.min (S j) (List.length ls)) with (S j) in P by lia. exact P.
      + apply Sp. right. rewrite firstn_length. lia.
    - destruct (drun_split C R Evt gen_of iterate add cb gen_add prep prep_prep prep_add _ _ _ _ _ _ H (S j) Hj)
        as (idxj & P & Sp).
      rewrite (nth_chks_log _ _ _ _ Hl) in P, Sp. exists idxj. split; [exact P|apply Sp; exact Hcond].
  Qed.

  (** ... and continuing from any checkpoint that is, once prepared, related to the prepared original *)
  Lemma resume_eqv cs c idx c' idx' ls j l rem cj :
    drun cs c idx = Ok (c', idx', ls) -> nth_error ls j = Some l -> remaining cs (List.length ls) j rem ->
    eqv (prep (il_chk l)) (prep cj) ->
    exists idxj, drun (firstn (S j) cs) c idx = Ok (il_chk l, idxj, firstn (S j) ls) /\
      exists d' ls', drun rem cj idxj = Ok (d', idx', ls') /\ eqv c' d' /\
                     Forall2 (log_eqv C Evt eqv) (skipn (S j) ls) ls'.
  Proof.
    intros H Hl Hrem He. destruct (resume_split _ _ _ _ _ _ _ _ _ H Hl Hrem) as (idxj & P & Sp).
    exists idxj. split; [exact P|].
    pose proof (run_eqv C R Evt gen_of iterate add cb eqv gen_eqv it_eqv add_eqv cb_eqv rem _ _ idxj He) as Hq.
    unfold Lemmas_C03.drun in Sp. rewrite Sp in Hq.
    apply out_eqv_Ok in Hq as (d' & ls' & Hd & He' & Hls). exists d', ls'. auto.
  Qed.
End ResumeGen.

(* ================================================================================================ *)
(** * Part 4: the three checkpoint kinds *)
Section Kinds.
  Context {K : Num}.
  Context (L : Libm K).
  Variable strm : N -> K.
  Variable ps : list (dparams K).
  Variable f : integrand K.
  Variable mp : mcmap K.
  Variable digits10 : string.
  Notation file := (list (tok K)).
  Notation fsK := (fs (tok K)).
  Notation lookupK := (lookup (tok K)).
  Notation crashK := (crash_states (tok K)).
  Notation writesK := (run_writes (tok K)).

  (** ** PLAIN *)
  Definition txt_plain (l : iterlog (pchk K) (event K)) (t : file) : Prop := t = ser_pchk digits10 (il_chk l).

  Lemma written_plain (ls : list (iterlog (pchk K) (event K))) texts :
    map (@List.concat _) texts = map (ser_pchk digits10) (map il_chk ls) -> written _ _ txt_plain ls texts.
  Proof. rewrite map_map. intros H. apply map_eq_Forall2 in H. exact H. Qed.

  Lemma file_is_a_checkpoint_plain (ls : list (iterlog (pchk K) (event K))) filename texts (s s' : fsK) :
    map (@List.concat _) texts = map (ser_pchk digits10) (map il_chk ls) ->
    In s' (crashK s (writesK filename texts)) ->
    lookupK s' filename = lookupK s filename \/
    exists j l, nth_error ls j = Some l /\ lookupK s' filename = Some (ser_pchk digits10 (il_chk l)).
  Proof.
    intros Ht H. apply written_plain in Ht.
    destruct (file_is_a_checkpoint_gen _ _ _ _ _ _ _ _ Ht H) as [E|(j & l & t & Hl & -> & E)]; [left; exact E|].
    right. exists j, l. auto.
  Qed.

  Lemma file_is_a_checkpoint_precise_plain (ls : list (iterlog (pchk K) (event K))) filename texts (s s' : fsK) :
    map (@List.concat _) texts = map (ser_pchk digits10) (map il_chk ls) ->
    In s' (crashK s (writesK filename texts)) ->
    s' = s \/
    exists k, k < List.length ls /\
      In s' (crashK (run_ops (tok K) s (writesK filename (firstn k texts)))
                    (write_chkpt_ops (tok K) filename (nth k texts []))) /\
      (match k with
       | 0 => lookupK s' filename = lookupK s filename
       | S k' => exists l, nth_error ls k' = Some l /\ lookupK s' filename = Some (ser_pchk digits10 (il_chk l))
       end \/
       exists l, nth_error ls k = Some l /\ lookupK s' filename = Some (ser_pchk digits10 (il_chk l))).
  Proof.
    intros Ht H. apply written_plain in Ht.
    destruct (file_is_a_checkpoint_precise_gen _ _ _ _ _ _ _ _ Ht H) as [E|(k & Hk & Hin & Hh)]; [left; exact E|].
    right. exists k. split; [exact Hk|]. split; [exact Hin|].
    destruct Hh as [Hh|(l & t & Hl & -> & E)]; [left|right; exists l; auto].
    destruct k as [|k]; [exact Hh|]. destruct Hh as (l & t & Hl & -> & E). exists l. auto.
  Qed.

  Lemma resume_after_crash_plain d cb cs (c0 : pchk K) idx c idx' ls j l rem :
    plain_run strm ps f d cb cs c0 idx = Ok (c, idx', ls) ->
    wf_pchk c0 = true ->
    nth_error ls j = Some l ->
    (rem = skipn (S j) (firstn (List.length ls) cs) \/
     rem = skipn (S j) cs /\ (S j < List.length ls \/ List.length ls = List.length cs)) ->
    exists idxj cj,
      plain_run strm ps f d cb (firstn (S j) cs) c0 idx = Ok (il_chk l, idxj, firstn (S j) ls) /\
      deser rd_pchk (ser_pchk digits10 (il_chk l)) = Ok cj /\
      plain_run strm ps f d cb rem cj idxj = Ok (c, idx', skipn (S j) ls).
  Proof.
    intros H Hwf Hl Hrem.
    destruct (resume_split (pchk K) (plainres K) (event K) base_gen
                (fun _ calls g i => plain_iteration strm ps f d calls g i) base_add cb base_gen_add
                (fun c => c) ltac:(reflexivity) ltac:(reflexivity)
                cs c0 idx c idx' ls j l rem H Hl Hrem) as (idxj & P & Sp).
    exists idxj, (il_chk l). split; [exact P|]. split; [|exact Sp].
    apply pchk_roundtrip. eapply plain_chks_wf; [exact H|exact Hwf|].
    right. apply in_map. eapply nth_error_In. exact Hl.
  Qed.

  Lemma kill_and_resume_plain d cb cs (c0 : pchk K) idx c idx' ls filename texts (s s' : fsK) :
    plain_run strm ps f d cb cs c0 idx = Ok (c, idx', ls) ->
    wf_pchk c0 = true ->
    map (@List.concat _) texts = map (ser_pchk digits10) (map il_chk ls) ->
    In s' (crashK s (writesK filename texts)) ->
    lookupK s' filename = lookupK s filename \/
    exists j l content idxj cj,
      nth_error ls j = Some l /\ lookupK s' filename = Some content /\
      content = ser_pchk digits10 (il_chk l) /\
      plain_run strm ps f d cb (firstn (S j) cs) c0 idx = Ok (il_chk l, idxj, firstn (S j) ls) /\
      deser rd_pchk content = Ok cj /\
      plain_run strm ps f d cb (skipn (S j) (firstn (List.length ls) cs)) cj idxj = Ok (c, idx', skipn (S j) ls).
  Proof.
    intros H Hwf Ht Hin. destruct (file_is_a_checkpoint_plain _ _ _ _ _ Ht Hin) as [E|(j & l & Hl & E)]; [left; exact E|].
    right. destruct (resume_after_crash_plain d cb cs c0 idx c idx' ls j l _ H Hwf Hl (or_introl eq_refl))
      as (idxj & cj & P & D & Sp).
    exists j, l, (ser_pchk digits10 (il_chk l)), idxj, cj. auto 10.
  Qed.

  (** ** VEGAS *)
  Definition txt_vegas (l : iterlog (vchk K) (event K)) (t : file) : Prop := ser_vchk digits10 (il_chk l) = Ok t.

  Lemma written_vegas (ls : list (iterlog (vchk K) (event K))) texts :
    map (fun chunks => Ok (List.concat chunks)) texts = map (ser_vchk digits10) (map il_chk ls) ->
    written _ _ txt_vegas ls texts.
  Proof.
    rewrite map_map. intros H. apply map_eq_Forall2 in H.
    eapply Forall2_imp; [|exact H]. intros l chunks E. unfold txt_vegas. symmetry. exact E.
  Qed.

  (* every checkpoint the callback is handed has a text, so such [texts] exist for every run *)
  Lemma vegas_texts_defined d cb cs (c0 : vchk K) idx c idx' ls :
    vegas_run L strm ps f d cb cs c0 idx = Ok (c, idx', ls) ->
    exists sers : list file, map (@Ok file) sers = map (ser_vchk digits10) (map il_chk ls).
  Proof.
    intros H. pose proof (vegas_chks_textual L strm ps f d cb cs c0 idx c idx' ls H) as Ht.
    assert (Hall : forall l, In l ls -> exists t, ser_vchk digits10 (il_chk l) = Ok t).
    { intros l Hin. apply (ser_vchk_defined digits10). apply Ht. right. apply in_map. exact Hin. }
    clear Ht H. induction ls as [|l ls IH]; [exists []; reflexivity|].
    destruct (Hall l (or_introl eq_refl)) as (t & E).
    destruct IH as (sers & Es); [intros x Hx; apply Hall; right; exact Hx|].
    exists (t :: sers). cbn [map]. rewrite E, Es. reflexivity.
  Qed.

  Lemma file_is_a_checkpoint_vegas (ls : list (iterlog (vchk K) (event K))) filename texts (s s' : fsK) :
    map (fun chunks => Ok (List.concat chunks)) texts = map (ser_vchk digits10) (map il_chk ls) ->
    In s' (crashK s (writesK filename texts)) ->
    lookupK s' filename = lookupK s filename \/
    exists j l t, nth_error ls j = Some l /\ ser_vchk digits10 (il_chk l) = Ok t /\ lookupK s' filename = Some t.
  Proof.
    intros Ht H. apply written_vegas in Ht.
    destruct (file_is_a_checkpoint_gen _ _ _ _ _ _ _ _ Ht H) as [E|(j & l & t & Hl & Et & E)]; [left; exact E|].
    right. exists j, l, t. auto.
  Qed.

  Lemma file_is_a_checkpoint_precise_vegas (ls : list (iterlog (vchk K) (event K))) filename texts (s s' : fsK) :
    map (fun chunks => Ok (List.concat chunks)) texts = map (ser_vchk digits10) (map il_chk ls) ->
    In s' (crashK s (writesK filename texts)) ->
    s' = s \/
    exists k, k < List.length ls /\
      In s' (crashK (run_ops (tok K) s (writesK filename (firstn k texts)))
                    (write_chkpt_ops (tok K) filename (nth k texts []))) /\
      (match k with
       | 0 => lookupK s' filename = lookupK s filename
       | S k' => exists l t, nth_error ls k' = Some l /\ ser_vchk digits10 (il_chk l) = Ok t /\
                             lookupK s' filename = Some t
       end \/
       exists l t, nth_error ls k = Some l /\ ser_vchk digits10 (il_chk l) = Ok t /\ lookupK s' filename = Some t).
  Proof.
    intros Ht H. apply written_vegas in Ht.
    destruct (file_is_a_checkpoint_precise_gen _ _ _ _ _ _ _ _ Ht H) as [E|(k & Hk & Hin & Hh)]; [left; exact E|].
    right. exists k. split; [exact Hk|]. split; [exact Hin|].
    destruct Hh as [Hh|Hh]; [left|right; exact Hh]. destruct k as [|k]; exact Hh.
  Qed.

  Lemma resume_after_crash_vegas d cb cs (c0 : vchk K) idx c idx' ls j l rem :
    (forall x y, vchk_eqv x y -> cb x = cb y) ->
    vegas_run L strm ps f d cb cs c0 idx = Ok (c, idx', ls) ->
    wf_vchk (vchk_dimensions c0 d) = true ->
    nth_error ls j = Some l ->
    (rem = skipn (S j) (firstn (List.length ls) cs) \/
     rem = skipn (S j) cs /\ (S j < List.length ls \/ List.length ls = List.length cs)) ->
    exists t idxj cj c' ls',
      ser_vchk digits10 (il_chk l) = Ok t /\
      vegas_run L strm ps f d cb (firstn (S j) cs) c0 idx = Ok (il_chk l, idxj, firstn (S j) ls) /\
      deser rd_vchk t = Ok cj /\
      vegas_run L strm ps f d cb rem cj idxj = Ok (c', idx', ls') /\
      ser_vchk digits10 c' = ser_vchk digits10 c /\ (exists tc, ser_vchk digits10 c = Ok tc) /\
      vchk_eqv c c' /\ Forall2 (log_eqv _ _ vchk_eqv) (skipn (S j) ls) ls'.
  Proof.
    intros Hcb H Hwf Hl Hrem.
    assert (Hin : In (il_chk l) (chks _ _ (vchk_dimensions c0 d) ls)).
    { right. apply in_map. eapply nth_error_In. exact Hl. }
    pose proof (vegas_chks_wf L strm ps f d cb cs c0 idx c idx' ls H Hwf _ Hin) as Hwfl.
    pose proof (vegas_chks_textual L strm ps f d cb cs c0 idx c idx' ls H _ Hin) as Htl.
    destruct (proj1 (ser_vchk_defined digits10 _) Htl) as (t & Et).
    pose proof (vchk_deser digits10 _ t Hwfl Et) as Hd.
    assert (He : vchk_eqv (vchk_dimensions (il_chk l) d) (vchk_dimensions (vchk_reread (il_chk l)) d)).
    { apply vchk_dim_eqv; [exact Htl|]. apply vchk_eqv_sym. apply vchk_reread_eqv. }
    destruct (resume_eqv (vchk K) (vegasres K) (event K) (fun c => base_gen (vc_base c)) (vegas_iter L strm ps f)
                vchk_add cb (fun c r g => base_gen_add (vc_base c) r g) vchk_eqv
                vchk_gen_eqv (vegas_iter_eqv L strm ps f) vchk_add_eqv Hcb
                (fun c => vchk_dimensions c d) (fun c => vchk_dim_dim c d) (fun c r g _ => vchk_dim_add c r g d)
                cs c0 idx c idx' ls j l rem (vchk_reread (il_chk l)) H Hl Hrem He)
      as (idxj & P & c' & ls' & Sp & Hec & Hls).
    exists t, idxj, (vchk_reread (il_chk l)), c', ls'.
    split; [exact Et|]. split; [exact P|]. split; [exact Hd|]. split; [exact Sp|].
    split; [symmetry; apply vchk_eqv_ser; exact Hec|]. split; [|split; [exact Hec|exact Hls]].
    apply (ser_vchk_defined digits10). eapply vegas_chks_textual; [exact H|]. eapply vegas_final_In. exact H.
  Qed.

  Lemma kill_and_resume_vegas d cb cs (c0 : vchk K) idx c idx' ls filename texts (s s' : fsK) :
    (forall x y, vchk_eqv x y -> cb x = cb y) ->
    vegas_run L strm ps f d cb cs c0 idx = Ok (c, idx', ls) ->
    wf_vchk (vchk_dimensions c0 d) = true ->
    map (fun chunks => Ok (List.concat chunks)) texts = map (ser_vchk digits10) (map il_chk ls) ->
    In s' (crashK s (writesK filename texts)) ->
    lookupK s' filename = lookupK s filename \/
    exists j l content idxj cj c' ls',
      nth_error ls j = Some l /\ lookupK s' filename = Some content /\
      ser_vchk digits10 (il_chk l) = Ok content /\
      vegas_run L strm ps f d cb (firstn (S j) cs) c0 idx = Ok (il_chk l, idxj, firstn (S j) ls) /\
      deser rd_vchk content = Ok cj /\
      vegas_run L strm ps f d cb (skipn (S j) (firstn (List.length ls) cs)) cj idxj = Ok (c', idx', ls') /\
      ser_vchk digits10 c' = ser_vchk digits10 c /\ (exists tc, ser_vchk digits10 c = Ok tc).
  Proof.
    intros Hcb H Hwf Ht Hin.
    destruct (file_is_a_checkpoint_vegas _ _ _ _ _ Ht Hin) as [E|(j & l & t & Hl & Et & E)]; [left; exact E|].
    right. destruct (resume_after_crash_vegas d cb cs c0 idx c idx' ls j l _ Hcb H Hwf Hl (or_introl eq_refl))
      as (t' & idxj & cj & c' & ls' & Et' & P & D & Sp & Es & Ec & _).
    rewrite Et in Et'. injection Et' as <-.
    exists j, l, t, idxj, cj, c', ls'. auto 12.
  Qed.

  (** ** multi-channel *)
  Definition txt_mc (l : iterlog (mchk K) (event K)) (t : file) : Prop := t = ser_mchk digits10 (il_chk l).

  Lemma written_mc (ls : list (iterlog (mchk K) (event K))) texts :
    map (@List.concat _) texts = map (ser_mchk digits10) (map il_chk ls) -> written _ _ txt_mc ls texts.
  Proof. rewrite map_map. intros H. apply map_eq_Forall2 in H. exact H. Qed.

  Lemma file_is_a_checkpoint_mc (ls : list (iterlog (mchk K) (event K))) filename texts (s s' : fsK) :
    map (@List.concat _) texts = map (ser_mchk digits10) (map il_chk ls) ->
    In s' (crashK s (writesK filename texts)) ->
    lookupK s' filename = lookupK s filename \/
    exists j l, nth_error ls j = Some l /\ lookupK s' filename = Some (ser_mchk digits10 (il_chk l)).
  Proof.
    intros Ht H. apply written_mc in Ht.
    destruct (file_is_a_checkpoint_gen _ _ _ _ _ _ _ _ Ht H) as [E|(j & l & t & Hl & -> & E)]; [left; exact E|].
    right. exists j, l. auto.
  Qed.

  Lemma file_is_a_checkpoint_precise_mc (ls : list (iterlog (mchk K) (event K))) filename texts (s s' : fsK) :
    map (@List.concat _) texts = map (ser_mchk digits10) (map il_chk ls) ->
    In s' (crashK s (writesK filename texts)) ->
    s' = s \/
    exists k, k < List.length ls /\
      In s' (crashK (run_ops (tok K) s (writesK filename (firstn k texts)))
                    (write_chkpt_ops (tok K) filename (nth k texts []))) /\
      (match k with
       | 0 => lookupK s' filename = lookupK s filename
       | S k' => exists l, nth_error ls k' = Some l /\ lookupK s' filename = Some (ser_mchk digits10 (il_chk l))
       end \/
       exists l, nth_error ls k = Some l /\ lookupK s' filename = Some (ser_mchk digits10 (il_chk l))).
  Proof.
    intros Ht H. apply written_mc in Ht.
    destruct (file_is_a_checkpoint_precise_gen _ _ _ _ _ _ _ _ Ht H) as [E|(k & Hk & Hin & Hh)]; [left; exact E|].
    right. exists k. split; [exact Hk|]. split; [exact Hin|].
    destruct Hh as [Hh|(l & t & Hl & -> & E)]; [left|right; exists l; auto].
    destruct k as [|k]; [exact Hh|]. destruct Hh as (l & t & Hl & -> & E). exists l. auto.
  Qed.

  Lemma resume_after_crash_mc d n cb cs (c0 : mchk K) idx c idx' ls j l rem :
    (forall x y, mchk_eqv x y -> cb x = cb y) ->
    mc_run L strm ps f mp d n cb cs c0 idx = Ok (c, idx', ls) ->
    wf_mchk c0 = true ->
    nth_error ls j = Some l ->
    (rem = skipn (S j) (firstn (List.length ls) cs) \/
     rem = skipn (S j) cs /\ (S j < List.length ls \/ List.length ls = List.length cs)) ->
    exists idxj cj c' ls',
      mc_run L strm ps f mp d n cb (firstn (S j) cs) c0 idx = Ok (il_chk l, idxj, firstn (S j) ls) /\
      deser rd_mchk (ser_mchk digits10 (il_chk l)) = Ok cj /\
      mc_run L strm ps f mp d n cb rem cj idxj = Ok (c', idx', ls') /\
      ser_mchk digits10 c' = ser_mchk digits10 c /\
      mchk_eqv c c' /\ Forall2 (log_eqv _ _ mchk_eqv) (skipn (S j) ls) ls'.
  Proof.
    intros Hcb H Hwf Hl Hrem.
    assert (Hin : In (il_chk l) (chks _ _ (mchk_channels c0 n) ls)).
    { right. apply in_map. eapply nth_error_In. exact Hl. }
    assert (Hwf0 : wf_mchk (mchk_channels c0 n) = true).
    { apply (proj2 (proj2 (proj2 (proj2 (fresh_wf (K:=K)))))). exact Hwf. }
    pose proof (mc_chks_wf L strm ps f mp d n cb cs c0 idx c idx' ls H Hwf0 _ Hin) as Hwfl.
    pose proof (mchk_deser digits10 _ Hwfl) as Hd.
    assert (He : mchk_eqv (mchk_channels (il_chk l) n) (mchk_channels (mchk_reread (il_chk l)) n)).
    { apply mchk_chan_eqv. apply mchk_eqv_sym. apply mchk_reread_eqv. }
    destruct (resume_eqv (mchk K) (mcres_mc K) (event K) (fun c => base_gen (mc_base c)) (mc_iter L strm ps f mp d)
                mchk_add cb (fun c r g => base_gen_add (mc_base c) r g) mchk_eqv
                mchk_gen_eqv (mc_iter_eqv L strm ps f mp d) mchk_add_eqv Hcb
                (fun c => mchk_channels c n) (fun c => mchk_chan_chan c n) (fun c r g Hp => mchk_chan_add c r g n Hp)
                cs c0 idx c idx' ls j l rem (mchk_reread (il_chk l)) H Hl Hrem He)
      as (idxj & P & c' & ls' & Sp & Hec & Hls).
    exists idxj, (mchk_reread (il_chk l)), c', ls'.
    split; [exact P|]. split; [exact Hd|]. split; [exact Sp|].
    split; [symmetry; apply mchk_eqv_ser; exact Hec|]. split; [exact Hec|exact Hls].
  Qed.

  Lemma kill_and_resume_mc d n cb cs (c0 : mchk K) idx c idx' ls filename texts (s s' : fsK) :
    (forall x y, mchk_eqv x y -> cb x = cb y) ->
    mc_run L strm ps f mp d n cb cs c0 idx = Ok (c, idx', ls) ->
    wf_mchk c0 = true ->
    map (@List.concat _) texts = map (ser_mchk digits10) (map il_chk ls) ->
    In s' (crashK s (writesK filename texts)) ->
    lookupK s' filename = lookupK s filename \/
    exists j l content idxj cj c' ls',
      nth_error ls j = Some l /\ lookupK s' filename = Some content /\
      content = ser_mchk digits10 (il_chk l) /\
      mc_run L strm ps f mp d n cb (firstn (S j) cs) c0 idx = Ok (il_chk l, idxj, firstn (S j) ls) /\
      deser rd_mchk content = Ok cj /\
      mc_run L strm ps f mp d n cb (skipn (S j) (firstn (List.length ls) cs)) cj idxj = Ok (c', idx', ls') /\
      ser_mchk digits10 c' = ser_mchk digits10 c.
  Proof.
    intros Hcb H Hwf Ht Hin.
    destruct (file_is_a_checkpoint_mc _ _ _ _ _ Ht Hin) as [E|(j & l & Hl & E)]; [left; exact E|].
    right. destruct (resume_after_crash_mc d n cb cs c0 idx c idx' ls j l _ Hcb H Hwf Hl (or_introl eq_refl))
      as (idxj & cj & c' & ls' & P & D & Sp & Es & _).
    exists j, l, (ser_mchk digits10 (il_chk l)), idxj, cj, c', ls'. auto 12.
  Qed.
  (** ** (1) restated for the log of a run (the run hypothesis only says what [ls] is; it is not used) *)
  Lemma run_file_is_a_checkpoint_plain d cb cs (c0 : pchk K) idx c idx' ls filename texts (s s' : fsK) :
    plain_run strm ps f d cb cs c0 idx = Ok (c, idx', ls) ->
    map (@List.concat _) texts = map (ser_pchk digits10) (map il_chk ls) ->
    In s' (crashK s (writesK filename texts)) ->
    lookupK s' filename = lookupK s filename \/
    exists j l, nth_error ls j = Some l /\ lookupK s' filename = Some (ser_pchk digits10 (il_chk l)).
  Proof. intros _. apply file_is_a_checkpoint_plain. Qed.

  Lemma run_file_is_a_checkpoint_vegas d cb cs (c0 : vchk K) idx c idx' ls filename texts (s s' : fsK) :
    vegas_run L strm ps f d cb cs c0 idx = Ok (c, idx', ls) ->
    map (fun chunks => Ok (List.concat chunks)) texts = map (ser_vchk digits10) (map il_chk ls) ->
    In s' (crashK s (writesK filename texts)) ->
    lookupK s' filename = lookupK s filename \/
    exists j l t, nth_error ls j = Some l /\ ser_vchk digits10 (il_chk l) = Ok t /\ lookupK s' filename = Some t.
  Proof. intros _. apply file_is_a_checkpoint_vegas. Qed.

  Lemma run_file_is_a_checkpoint_mc d n cb cs (c0 : mchk K) idx c idx' ls filename texts (s s' : fsK) :
    mc_run L strm ps f mp d n cb cs c0 idx = Ok (c, idx', ls) ->
    map (@List.concat _) texts = map (ser_mchk digits10) (map il_chk ls) ->
    In s' (crashK s (writesK filename texts)) ->
    lookupK s' filename = lookupK s filename \/
    exists j l, nth_error ls j = Some l /\ lookupK s' filename = Some (ser_mchk digits10 (il_chk l)).
  Proof. intros _. apply file_is_a_checkpoint_mc. Qed.

  Lemma run_file_is_a_checkpoint_precise_plain d cb cs (c0 : pchk K) idx c idx' ls filename texts (s s' : fsK) :
    plain_run strm ps f d cb cs c0 idx = Ok (c, idx', ls) ->
    map (@List.concat _) texts = map (ser_pchk digits10) (map il_chk ls) ->
    In s' (crashK s (writesK filename texts)) ->
    s' = s \/
    exists k, k < List.length ls /\
      In s' (crashK (run_ops (tok K) s (writesK filename (firstn k texts)))
                    (write_chkpt_ops (tok K) filename (nth k texts []))) /\
      (match k with
       | 0 => lookupK s' filename = lookupK s filename
       | S k' => exists l, nth_error ls k' = Some l /\ lookupK s' filename = Some (ser_pchk digits10 (il_chk l))
       end \/
       exists l, nth_error ls k = Some l /\ lookupK s' filename = Some (ser_pchk digits10 (il_chk l))).
  Proof. intros _. apply file_is_a_checkpoint_precise_plain. Qed.

  Lemma run_file_is_a_checkpoint_precise_vegas d cb cs (c0 : vchk K) idx c idx' ls filename texts (s s' : fsK) :
    vegas_run L strm ps f d cb cs c0 idx = Ok (c, idx', ls) ->
    map (fun chunks => Ok (List.concat chunks)) texts = map (ser_vchk digits10) (map il_chk ls) ->
    In s' (crashK s (writesK filename texts)) ->
    s' = s \/
    exists k, k < List.length ls /\
      In s' (crashK (run_ops (tok K) s (writesK filename (firstn k texts)))
                    (write_chkpt_ops (tok K) filename (nth k texts []))) /\
      (match k with
       | 0 => lookupK s' filename = lookupK s filename
       | S k' => exists l t, nth_error ls k' = Some l /\ ser_vchk digits10 (il_chk l) = Ok t /\
                             lookupK s' filename = Some t
       end \/
       exists l t, nth_error ls k = Some l /\ ser_vchk digits10 (il_chk l) = Ok t /\ lookupK s' filename = Some t).
  Proof. intros _. apply file_is_a_checkpoint_precise_vegas. Qed.

  Lemma run_file_is_a_checkpoint_precise_mc d n cb cs (c0 : mchk K) idx c idx' ls filename texts (s s' : fsK) :
    mc_run L strm ps f mp d n cb cs c0 idx = Ok (c, idx', ls) ->
    map (@List.concat _) texts = map (ser_mchk digits10) (map il_chk ls) ->
    In s' (crashK s (writesK filename texts)) ->
    s' = s \/
    exists k, k < List.length ls /\
      In s' (crashK (run_ops (tok K) s (writesK filename (firstn k texts)))
                    (write_chkpt_ops (tok K) filename (nth k texts []))) /\
      (match k with
       | 0 => lookupK s' filename = lookupK s filename
       | S k' => exists l, nth_error ls k' = Some l /\ lookupK s' filename = Some (ser_mchk digits10 (il_chk l))
       end \/
       exists l, nth_error ls k = Some l /\ lookupK s' filename = Some (ser_mchk digits10 (il_chk l))).
  Proof. intros _. apply file_is_a_checkpoint_precise_mc. Qed.
End Kinds.

(* ================================================================================================ *)
(** * Part 5: non-vacuity.  The double-precision runs of Lemmas_C03.v / Lemmas_C12.v / Lemmas_C19.v are used
    through [exr_plain] / [exr_vegas] / [exr_mc] only (the run succeeds, performs all requested iterations
    and starts from a well-formed checkpoint); nothing below computes on floating-point values: the log
    entries stay abstract.  The text of the last checkpoint is written in two pieces (cut after 5 tokens),
    the others in one piece. *)
From HepMC Require Import NumB Lemmas_C12 Lemmas_C19.

Definition ex18r_texts2 {K : Num} (t0 t1 : list (tok K)) : list (list (list (tok K))) :=
  [[t0]; [firstn 5 t1; skipn 5 t1]].
Definition ex18r_texts3 {K : Num} (t0 t1 t2 : list (tok K)) : list (list (list (tok K))) :=
  [[t0]; [t1]; [firstn 5 t2; skipn 5 t2]].

Lemma concat_one {X} (t : list X) : List.concat [t] = t.
Proof. cbn [List.concat]. apply app_nil_r. Qed.
Lemma concat_cut {X} (t : list X) n : List.concat [firstn n t; skipn n t] = t.
Proof. cbn [List.concat]. rewrite app_nil_r. apply firstn_skipn. Qed.

(* a kill between the first and the second invocation leaves the first text *)
Lemma ex18r_first_text {X} (t : list X) ts :
  exists s', In s' (crash_states X [] (run_writes X "chk"%string ([t] :: ts))) /\ lookup X s' "chk"%string = Some t.
Proof.
  exists (run_ops X [] (write_chkpt_ops X "chk"%string [t])). split.
  - rewrite run_writes_cons. apply crash_states_app_l. apply crash_states_last.
  - rewrite write_complete. rewrite concat_one. reflexivity.
Qed.

Lemma ex18r_plain : exists c idx' l0 l1,
  plain_run ex_strm [] ex_f 1 (cb_plain (zero B64)) [3; 3]%N exr_plain_c0 0 = Ok (c, idx', [l0; l1]) /\
  wf_pchk exr_plain_c0 = true /\
  map (@List.concat _) (ex18r_texts2 (ser_pchk "17" (il_chk l0)) (ser_pchk "17" (il_chk l1)))
    = map (ser_pchk "17") (map il_chk [l0; l1]) /\
  (exists s', In s' (crash_states _ [] (run_writes _ "chk"%string
                       (ex18r_texts2 (ser_pchk "17" (il_chk l0)) (ser_pchk "17" (il_chk l1))))) /\
              lookup _ s' "chk"%string = Some (ser_pchk "17" (il_chk l0))) /\
  (forall s', In s' (crash_states _ [] (run_writes _ "chk"%string
                       (ex18r_texts2 (ser_pchk "17" (il_chk l0)) (ser_pchk "17" (il_chk l1))))) ->
     lookup _ s' "chk"%string = None \/
     exists j l idxj cj,
       nth_error [l0; l1] j = Some l /\ lookup _ s' "chk"%string = Some (ser_pchk "17" (il_chk l)) /\
       deser rd_pchk (ser_pchk "17" (il_chk l)) = Ok cj /\
       plain_run ex_strm [] ex_f 1 (cb_plain (zero B64)) (skipn (S j) [3; 3]%N) cj idxj
         = Ok (c, idx', skipn (S j) [l0; l1])).
Proof.
  destruct exr_plain as (c & i & ls & H & Hl & _ & Hwf).
  destruct ls as [|l0 [|l1 [|l2 ls]]]; try discriminate Hl.
  assert (Hwf0 : wf_pchk exr_plain_c0 = true) by (apply Hwf; left; reflexivity).
  assert (Ht : map (@List.concat _) (ex18r_texts2 (ser_pchk "17" (il_chk l0)) (ser_pchk "17" (il_chk l1)))
               = map (ser_pchk "17") (map il_chk [l0; l1])).
  { unfold ex18r_texts2. cbn [map]. rewrite concat_one, concat_cut. reflexivity. }
  exists c, i, l0, l1. split; [exact H|]. split; [exact Hwf0|]. split; [exact Ht|]. split.
  - apply ex18r_first_text.
  - intros s' Hin.
    destruct (kill_and_resume_plain ex_strm [] ex_f "17" 1 (cb_plain (zero B64)) [3; 3]%N exr_plain_c0 0 c i
                [l0; l1] "chk"%string _ [] s' H Hwf0 Ht Hin) as [E|(j & l & content & idxj & cj & Hj & E & -> & _ & D & R)].
    + left. exact E.
    + right. exists j, l, idxj, cj. split; [exact Hj|]. split; [exact E|]. split; [exact D|exact R].
Qed.

Lemma ex18r_vegas : exists c idx' l0 l1 l2 t0 t1 t2,
  vegas_run ex19_L ex19_strm [] ex19_f 1 (fun _ => true) [8; 8; 8]%N exr_vegas_c0 0 = Ok (c, idx', [l0; l1; l2]) /\
  wf_vchk (vchk_dimensions exr_vegas_c0 1) = true /\
  map (fun chunks => Ok (List.concat chunks)) (ex18r_texts3 t0 t1 t2)
    = map (ser_vchk "17") (map il_chk [l0; l1; l2]) /\
  (exists s', In s' (crash_states _ [] (run_writes _ "chk"%string (ex18r_texts3 t0 t1 t2))) /\
              lookup _ s' "chk"%string = Some t0) /\
  (forall s', In s' (crash_states _ [] (run_writes _ "chk"%string (ex18r_texts3 t0 t1 t2))) ->
     lookup _ s' "chk"%string = None \/
     exists j l content idxj cj c' ls',
       nth_error [l0; l1; l2] j = Some l /\ lookup _ s' "chk"%string = Some content /\
       ser_vchk "17" (il_chk l) = Ok content /\
       deser rd_vchk content = Ok cj /\
       vegas_run ex19_L ex19_strm [] ex19_f 1 (fun _ => true) (skipn (S j) [8; 8; 8]%N) cj idxj = Ok (c', idx', ls') /\
       ser_vchk "17" c' = ser_vchk "17" c /\ (exists tc, ser_vchk "17" c = Ok tc)).
Proof.
  destruct exr_vegas as (c & i & ls & H & Hl & _ & Hwf).
  destruct ls as [|l0 [|l1 [|l2 [|l3 ls]]]]; try discriminate Hl.
  assert (Hwf0 : wf_vchk (vchk_dimensions exr_vegas_c0 1) = true) by (apply Hwf; left; reflexivity).
  destruct (vegas_texts_defined ex19_L ex19_strm [] ex19_f "17" 1 (fun _ => true) _ _ _ _ _ _ H) as (sers & Es).
  destruct sers as [|t0 [|t1 [|t2 [|t3 sers]]]]; try discriminate Es.
  assert (Ht : map (fun chunks => Ok (List.concat chunks)) (ex18r_texts3 t0 t1 t2)
               = map (ser_vchk "17") (map il_chk [l0; l1; l2])).
  { unfold ex18r_texts3. cbn [map] in Es |- *. rewrite !concat_one, concat_cut. exact Es. }
  exists c, i, l0, l1, l2, t0, t1, t2. split; [exact H|]. split; [exact Hwf0|]. split; [exact Ht|]. split.
  - apply ex18r_first_text.
  - intros s' Hin.
    destruct (kill_and_resume_vegas ex19_L ex19_strm [] ex19_f "17" 1 (fun _ => true) [8; 8; 8]%N exr_vegas_c0 0 c i
                [l0; l1; l2] "chk"%string _ [] s' (fun _ _ _ => eq_refl) H Hwf0 Ht Hin)
      as [E|(j & l & content & idxj & cj & c' & ls' & Hj & E & Et & _ & D & R & Es' & Ec)].
    + left. exact E.
    + right. exists j, l, content, idxj, cj, c', ls'. auto 10.
Qed.

Lemma ex18r_mc : exists c idx' l0 l1 l2,
  mc_run ex19_L ex19_strm [] ex19_f exr_mp 1 2 (fun _ => true) [4; 4; 4]%N exr_mc_c0 0 = Ok (c, idx', [l0; l1; l2]) /\
  wf_mchk exr_mc_c0 = true /\
  map (@List.concat _) (ex18r_texts3 (ser_mchk "17" (il_chk l0)) (ser_mchk "17" (il_chk l1)) (ser_mchk "17" (il_chk l2)))
    = map (ser_mchk "17") (map il_chk [l0; l1; l2]) /\
  (exists s', In s' (crash_states _ [] (run_writes _ "chk"%string
                (ex18r_texts3 (ser_mchk "17" (il_chk l0)) (ser_mchk "17" (il_chk l1)) (ser_mchk "17" (il_chk l2))))) /\
              lookup _ s' "chk"%string = Some (ser_mchk "17" (il_chk l0))) /\
  (forall s', In s' (crash_states _ [] (run_writes _ "chk"%string
                (ex18r_texts3 (ser_mchk "17" (il_chk l0)) (ser_mchk "17" (il_chk l1)) (ser_mchk "17" (il_chk l2))))) ->
     lookup _ s' "chk"%string = None \/
     exists j l idxj cj c' ls',
       nth_error [l0; l1; l2] j = Some l /\ lookup _ s' "chk"%string = Some (ser_mchk "17" (il_chk l)) /\
       deser rd_mchk (ser_mchk "17" (il_chk l)) = Ok cj /\
       mc_run ex19_L ex19_strm [] ex19_f exr_mp 1 2 (fun _ => true) (skipn (S j) [4; 4; 4]%N) cj idxj = Ok (c', idx', ls') /\
       ser_mchk "17" c' = ser_mchk "17" c).
Proof.
  destruct exr_mc as (c & i & ls & H & Hl & _ & Hwf).
  destruct ls as [|l0 [|l1 [|l2 [|l3 ls]]]]; try discriminate Hl.
  assert (Hwf0 : wf_mchk exr_mc_c0 = true) by reflexivity.
  assert (Ht : map (@List.concat _) (ex18r_texts3 (ser_mchk "17" (il_chk l0)) (ser_mchk "17" (il_chk l1)) (ser_mchk "17" (il_chk l2)))
               = map (ser_mchk "17") (map il_chk [l0; l1; l2])).
  { unfold ex18r_texts3. cbn [map]. rewrite !concat_one, concat_cut. reflexivity. }
  exists c, i, l0, l1, l2. split; [exact H|]. split; [exact Hwf0|]. split; [exact Ht|]. split.
  - apply ex18r_first_text.
  - intros s' Hin.
    destruct (kill_and_resume_mc ex19_L ex19_strm [] ex19_f exr_mp "17" 1 2 (fun _ => true) [4; 4; 4]%N exr_mc_c0 0 c i
                [l0; l1; l2] "chk"%string _ [] s' (fun _ _ _ => eq_refl) H Hwf0 Ht Hin)
      as [E|(j & l & content & idxj & cj & c' & ls' & Hj & E & -> & _ & D & R & Es')].
    + left. exact E.
    + right. exists j, l, idxj, cj, c', ls'. auto 10.
Qed.
