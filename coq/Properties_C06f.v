(** C06f - "all reported numbers stay finite" (property C06) for the sums of the main result, with the
    NO-OVERFLOW HYPOTHESIS MADE EXPLICIT.  Statements only (definitions and proofs in Lemmas_C06f.v).

    Background.  Properties_C06.v proves that non-finite evaluations are counted but never reach a sum
    ([C06_reported_finite_partial]: every value that is added is finite) and notes that the sums themselves can
    still overflow (two finite evaluations of 1e308), so that finiteness of the reported numbers needs a
    no-overflow hypothesis "not formalised here".  This file formalises it, for K := NumB prec emax (Flocq's
    IEEE-754 binary format), by composing C02_main_is_filtered_fold (the main result is the translated Kahan
    [accumulate] folded over the kept values), C06_reported_finite_partial (the kept values are finite),
    C14_kahan_error_bound_float (a Kahan sum of finite values far from overflow is finite; needs prec >= 6) and
    one new elementary lemma about the naive running sum of squares.

    Vocabulary.
    - [kept_values f evs] = map prod (filter keptb (vals f evs)) (vocabulary of Lemmas_C02.v): the products f * w of
      exactly the calls with f != 0 and f * w finite, in call order.  Calls where the integrand returned NaN, +-inf,
      zero, or a value whose product with the weight overflows are NOT in this list, whatever their number or mix.
    - [BRasum xs] = sum |B2R v|, [BRsum xs] = sum B2R v (Lemmas_C14.v), [BRsqsum xs] = sum (B2R v)^2, real numbers.
    - [no_overflow xs], for the list xs of kept values with n = length xs:
        (1) 4 * BRasum xs < 2^emax            (2) n * 2^-prec <= 1     [the hypotheses of C14_kahan_error_bound_float]
        (3) BRsqsum xs + n * 2^(emax-prec) < 2^emax                      [the sum of squares cannot overflow].
      [C06f_no_overflow_half]: n <= 2^(prec-1), sum |v| < 2^(emax-2) and sum v^2 < 2^(emax-1) suffice.
    - [sq_run xs ss] = fold_left (fun ss x => add ss (mul x x)) xs ss: the sum-of-squares component of [accumulate]
      ([C06f_sumsq_is_accumulate]).
    - [sums_finite f evs m]:  r_fin m = length (kept_values f evs),  is_finite (r_sum m) = true,
      is_finite (r_sumsq m) = true,  |B2R (r_sum m) - BRsum kept| <= (7u + 20 n u^2) * BRasum kept  (u = 2^-prec; C14's
      bound restated for the reported sum),  0 <= B2R (r_sumsq m).

    WHAT IS PROVED
    - [C06f_sumsq_no_overflow] (EVERY format, no restriction on prec): for finite values with hypothesis (3) every
      square and every partial sum of squares is finite, so the final sum of squares is finite (and >= 0).
      Argument: with G = 2^(emax-prec), the multiples m*G (0 <= m < 2^prec) are floats below 2^emax; v^2 <=
      ceil(v^2/G)*G, rounding is monotone and fixes floats, hence by induction the running sum stays <=
      (sum of the ceilings)*G, and (3) says that sum of ceilings is < 2^prec.  [C06f_sumsq_no_overflow_half]: the
      same from  n * 2^-prec <= 1/2  and  sum v^2 < 2^(emax-1).
    - [C06f_kept_all_finite]: the kept values of any event list are finite (restating C06).
    - [C06f_main_spec_finite]: any main result satisfying [main_spec] (C02) whose kept values satisfy [no_overflow]
      has finite sum and finite sum of squares ([sums_finite]).
    - [C06f_reported_sums_finite_partial]: hence for the main result of [plain_iteration], [vegas_iteration] and
      [mc_iteration] (prec >= 6): if the iteration returns Ok and its kept values satisfy [no_overflow], the reported
      sum and sum of squares are finite - whatever NaN / +-inf / overflowing values the integrand returned at the
      other calls.
    - [C06f_reported_value_finite]: if moreover 1 <= calls < 2^prec, the reported estimate value = sum / T(calls) is
      finite and |value| <= |sum|.

    WHAT IS NOT PROVED (hence "_partial")
    - variance() and error(): sumsq/N - (sum/N)^2 and its quotient by N-1 involve a square and a cancellation;
      their finiteness does not follow from finite sums alone in floating point and is not treated.
    - the distribution bins (each bin is a Kahan cell of its own: the same two lemmas apply per bin to the values
      filled into it, but that composition with C11 is not stated here); the VEGAS / multi-channel adjustment data
      (sums of squares of sanitised values: finite summands by C06, overflow of their sums not treated).
    - Hypotheses (1)-(3) are on the exact real values of the kept products; nothing is claimed when they fail
      (the sums may then overflow to +-inf, as C06's caveat says).  calls >= 2^prec is excluded for [value]. *)
From Coq Require Import ZArith NArith List Bool Reals.
From Flocq Require Import Core BinarySingleNaN.
From HepMC Require Import Num NumB Translated Result Accum VegasPdf Discrete MultiChannel Iter
  Lemmas_Run Lemmas_C02 Lemmas_C06 Lemmas_C14 Lemmas_C06f.
Import ListNotations.
Local Open Scope R_scope.

Theorem C06f_sumsq_is_accumulate :
  forall (prec emax : Z) (Hprec : FLX.Prec_gt_0 prec) (Hmax : Prec_lt_emax prec emax)
         (xs : list (NumB prec emax Hprec Hmax)),
    snd (fst (acc_run (NumB prec emax Hprec Hmax) xs)) = sq_run prec emax Hprec Hmax xs (zero (NumB prec emax Hprec Hmax)).
Proof. exact acc_run_sumsq. Qed.
Print Assumptions C06f_sumsq_is_accumulate.

Theorem C06f_sumsq_no_overflow :
  forall (prec emax : Z) (Hprec : FLX.Prec_gt_0 prec) (Hmax : Prec_lt_emax prec emax)
         (xs : list (NumB prec emax Hprec Hmax)),
    all_finite prec emax Hprec Hmax xs ->
    BRsqsum prec emax Hprec Hmax xs + INR (length xs) * bpow radix2 (emax - prec) < bpow radix2 emax ->
    is_finite (sq_run prec emax Hprec Hmax xs (zero (NumB prec emax Hprec Hmax))) = true /\
    0 <= B2R (sq_run prec emax Hprec Hmax xs (zero (NumB prec emax Hprec Hmax))).
Proof. exact sumsq_finite. Qed.
Print Assumptions C06f_sumsq_no_overflow.

Theorem C06f_sumsq_no_overflow_half :
  forall (prec emax : Z) (Hprec : FLX.Prec_gt_0 prec) (Hmax : Prec_lt_emax prec emax)
         (xs : list (NumB prec emax Hprec Hmax)),
    all_finite prec emax Hprec Hmax xs ->
    INR (length xs) * bpow radix2 (- prec) <= / 2 ->
    BRsqsum prec emax Hprec Hmax xs < bpow radix2 (emax - 1) ->
    is_finite (sq_run prec emax Hprec Hmax xs (zero (NumB prec emax Hprec Hmax))) = true /\
    0 <= B2R (sq_run prec emax Hprec Hmax xs (zero (NumB prec emax Hprec Hmax))).
Proof. exact sumsq_finite_half. Qed.
Print Assumptions C06f_sumsq_no_overflow_half.

Theorem C06f_no_overflow_half :
  forall (prec emax : Z) (Hprec : FLX.Prec_gt_0 prec) (Hmax : Prec_lt_emax prec emax)
         (xs : list (NumB prec emax Hprec Hmax)),
    INR (length xs) * bpow radix2 (- prec) <= / 2 ->
    BRasum prec emax Hprec Hmax xs < bpow radix2 (emax - 2) ->
    BRsqsum prec emax Hprec Hmax xs < bpow radix2 (emax - 1) ->
    no_overflow prec emax Hprec Hmax xs.
Proof. exact no_overflow_half. Qed.
Print Assumptions C06f_no_overflow_half.

Theorem C06f_kept_all_finite :
  forall (prec emax : Z) (Hprec : FLX.Prec_gt_0 prec) (Hmax : Prec_lt_emax prec emax)
         (f : integrand (NumB prec emax Hprec Hmax)) (evs : list (event (NumB prec emax Hprec Hmax))),
    all_finite prec emax Hprec Hmax (kept_values prec emax Hprec Hmax f evs).
Proof. exact kept_all_finite. Qed.
Print Assumptions C06f_kept_all_finite.

Theorem C06f_main_spec_finite :
  forall (prec emax : Z) (Hprec : FLX.Prec_gt_0 prec) (Hmax : Prec_lt_emax prec emax), (6 <= prec)%Z ->
  forall (f : integrand (NumB prec emax Hprec Hmax)) calls evs (m : mcres (NumB prec emax Hprec Hmax)),
    main_spec f calls evs m -> no_overflow prec emax Hprec Hmax (kept_values prec emax Hprec Hmax f evs) ->
    all_finite prec emax Hprec Hmax (kept_values prec emax Hprec Hmax f evs) /\
    r_fin m = N.of_nat (length (kept_values prec emax Hprec Hmax f evs)) /\
    is_finite (r_sum m) = true /\ is_finite (r_sumsq m) = true /\
    Rabs (B2R (r_sum m) - BRsum prec emax Hprec Hmax (kept_values prec emax Hprec Hmax f evs))
      <= (7 * bpow radix2 (- prec)
          + 20 * INR (length (kept_values prec emax Hprec Hmax f evs)) * bpow radix2 (- prec) * bpow radix2 (- prec))
         * BRasum prec emax Hprec Hmax (kept_values prec emax Hprec Hmax f evs) /\
    0 <= B2R (r_sumsq m).
Proof. exact c06f_main_spec_finite. Qed.
Print Assumptions C06f_main_spec_finite.

Theorem C06f_reported_sums_finite_partial :
  forall (prec emax : Z) (Hprec : FLX.Prec_gt_0 prec) (Hmax : Prec_lt_emax prec emax), (6 <= prec)%Z ->
  forall (strm : N -> NumB prec emax Hprec Hmax) ps (f : integrand (NumB prec emax Hprec Hmax))
         (mp : mcmap (NumB prec emax Hprec Hmax)),
  (forall d calls g idx r g' idx' evs, plain_iteration strm ps f d calls g idx = Ok (r, g', idx', evs) ->
     no_overflow prec emax Hprec Hmax (kept_values prec emax Hprec Hmax f evs) ->
     sums_finite prec emax Hprec Hmax f evs (p_main r)) /\
  (forall p calls g idx r g' idx' evs, vegas_iteration strm ps f p calls g idx = Ok (r, g', idx', evs) ->
     no_overflow prec emax Hprec Hmax (kept_values prec emax Hprec Hmax f evs) ->
     sums_finite prec emax Hprec Hmax f evs (p_main (v_plain r))) /\
  (forall d ws calls g idx r g' idx' evs, mc_iteration strm ps f mp d ws calls g idx = Ok (r, g', idx', evs) ->
     no_overflow prec emax Hprec Hmax (kept_values prec emax Hprec Hmax f evs) ->
     sums_finite prec emax Hprec Hmax f evs (p_main (m_plain r))).
Proof. exact c06f_reported_sums_finite. Qed.
Print Assumptions C06f_reported_sums_finite_partial.

Theorem C06f_reported_value_finite :
  forall (prec emax : Z) (Hprec : FLX.Prec_gt_0 prec) (Hmax : Prec_lt_emax prec emax), (6 <= prec)%Z ->
  forall (strm : N -> NumB prec emax Hprec Hmax) ps (f : integrand (NumB prec emax Hprec Hmax))
         (mp : mcmap (NumB prec emax Hprec Hmax)),
  (forall d calls g idx r g' idx' evs, plain_iteration strm ps f d calls g idx = Ok (r, g', idx', evs) ->
     no_overflow prec emax Hprec Hmax (kept_values prec emax Hprec Hmax f evs) ->
     (1 <= calls)%N -> (Z.of_N calls < 2 ^ prec)%Z ->
     is_finite (value (p_main r)) = true /\ Rabs (B2R (value (p_main r))) <= Rabs (B2R (r_sum (p_main r)))) /\
  (forall p calls g idx r g' idx' evs, vegas_iteration strm ps f p calls g idx = Ok (r, g', idx', evs) ->
     no_overflow prec emax Hprec Hmax (kept_values prec emax Hprec Hmax f evs) ->
     (1 <= calls)%N -> (Z.of_N calls < 2 ^ prec)%Z ->
     is_finite (value (p_main (v_plain r))) = true /\
     Rabs (B2R (value (p_main (v_plain r)))) <= Rabs (B2R (r_sum (p_main (v_plain r))))) /\
  (forall d ws calls g idx r g' idx' evs, mc_iteration strm ps f mp d ws calls g idx = Ok (r, g', idx', evs) ->
     no_overflow prec emax Hprec Hmax (kept_values prec emax Hprec Hmax f evs) ->
     (1 <= calls)%N -> (Z.of_N calls < 2 ^ prec)%Z ->
     is_finite (value (p_main (m_plain r))) = true /\
     Rabs (B2R (value (p_main (m_plain r)))) <= Rabs (B2R (r_sum (p_main (m_plain r))))).
Proof. exact c06f_reported_value_finite. Qed.
Print Assumptions C06f_reported_value_finite.

(** Non-vacuity (double precision, values through the wire representation [Bout]): the PLAIN iteration of
    Properties_C02.v / Lemmas_C02.v, 7 calls whose integrand returns NaN, 0, 3/2, +inf, NaN, 0, 3/2
    ([ex06f_three_halves] = OFin false 6755399441055744 (-52)).  It returns Ok; the kept values are the two 3/2; they
    satisfy [no_overflow]; 5 calls are counted non-zero, 2 finite; the reported sum is 3, the sum of squares 9/2, the
    estimate fl(3/7) - all finite although three calls returned NaN or +inf. *)
Example C06f_example :
  exists r g' idx' evs,
    plain_iteration ex02_strm ex02_ps ex02_f 2 7 0 0 = Ok (r, g', idx', evs) /\
    map (fun vw => Bout 53 1024 (fst vw)) (vals ex02_f evs) =
      [ONan; OZero false; ex06f_three_halves; OInf false; ONan; OZero false; ex06f_three_halves] /\
    map (Bout 53 1024) (kept_values 53 1024 P53 M53 ex02_f evs) = [ex06f_three_halves; ex06f_three_halves] /\
    no_overflow 53 1024 P53 M53 (kept_values 53 1024 P53 M53 ex02_f evs) /\
    Bout 53 1024 (r_sum (p_main r)) = OFin false 6755399441055744 (-51) /\
    Bout 53 1024 (r_sumsq (p_main r)) = OFin false 5066549580791808 (-50) /\
    Bout 53 1024 (value (p_main r)) = OFin false 7720456504063707 (-54) /\
    r_nz (p_main r) = 5%N /\ r_fin (p_main r) = 2%N.
Proof. exact c06f_example. Qed.
