(** Extraction of the executable model: ExtrOcamlBasic only, numbers stay Coq datatypes.
    Compiled from coq/extracted/ (not part of _CoqProject) so that model.ml lands there. *)
From Coq Require Import Extraction ExtrOcamlBasic.
From HepMC Require Import Top Sx NumB.
Extraction Language OCaml.
Extraction "model.ml" run_line.
