(** C12 - iterations run in order and stop only when the callback says so.
    Statements only (proofs in Lemmas_C12.v, Lemmas_Run.v).

    The three integrator drivers hep::plain / hep::vegas / hep::multi_channel are instances
    ([plain_run], [vegas_run], [mc_run] in Run.v) of one generic loop [run] over an arbitrary checkpoint
    type C, iteration function [iterate], [add] and callback [cb : C -> bool]; the protocol theorems are
    proved for the generic loop, hence for all three, for every callback (user or built-in), every
    integrand/map oracle, every calls list, every starting (also resumed) checkpoint.  [Exec] (Lemmas_Run.v)
    is the relational specification "iterate; add; callback; stop at the first false".
    A callback is a function of the checkpoint it is handed (a stateful user functor is a function of the
    number of results, which strictly grows).  The MPI drivers are covered by C04.
    The built-in decision [decide] is the repaired one (no target => never stop; NaN never reaches a target). *)
From Coq Require Import ZArith NArith List Bool.
From Flocq Require Import Core BinarySingleNaN.
From HepMC Require Import Num NumB NumR Result Iter Chkpt Callback Run Lemmas_Run Lemmas_C12.
Import ListNotations.

(* order, exactly one callback invocation per performed iteration, stop immediately iff it returns
   false, return that checkpoint *)
Theorem C12_protocol :
  forall (C R Evt : Type) (gen_of : C -> res N) (iterate : C -> N -> N -> N -> res (R * N * N * list Evt))
         (add : C -> R -> N -> C) (cb : C -> bool) cs c idx c' idx' ls,
    run C R Evt gen_of iterate add cb cs c idx = Ok (c', idx', ls) ->
    exists g rest,
      gen_of c = Ok g /\ Exec C R Evt iterate add cb cs c g idx ls c' idx' rest /\
      length cs = (length ls + length rest)%nat /\
      Forall (fun l => il_continue l = true) (removelast ls) /\
      (rest <> [] -> exists ls0 l, ls = ls0 ++ [l] /\ il_continue l = false) /\
      (forall ls0 l, ls = ls0 ++ [l] -> il_continue l = true -> rest = []) /\
      c' = match rev ls with l :: _ => il_chk l | [] => c end /\
      (forall i l, nth_error ls i = Some l ->
         exists calls r gi, nth_error cs i = Some calls /\
           il_chk l = add (nth i (chks C Evt c ls) c) r gi /\ il_continue l = cb (il_chk l)).
Proof. exact c12_protocol. Qed.
Print Assumptions C12_protocol.

(* the checkpoint handed to the i-th callback invocation holds exactly the results so far *)
Theorem C12_results_so_far :
  forall (C R Evt : Type) (gen_of : C -> res N) (iterate : C -> N -> N -> N -> res (R * N * N * list Evt))
         (add : C -> R -> N -> C) (cb : C -> bool) (size : C -> nat),
    (forall c r g, size (add c r g) = S (size c)) ->
    forall cs c idx c' idx' ls, run C R Evt gen_of iterate add cb cs c idx = Ok (c', idx', ls) ->
    forall i l, nth_error ls i = Some l -> size (il_chk l) = (size c + i + 1)%nat.
Proof. exact c12_results_so_far. Qed.
Print Assumptions C12_results_so_far.

(* ... where "size" is the number of results for each of the three checkpoint kinds *)
Theorem C12_add_grows_by_one : forall (K : Num),
  (forall (c : pchk K) r g, length (b_results (base_add c r g)) = S (length (b_results c))) /\
  (forall (c : vchk K) r g, length (b_results (vc_base (vchk_add c r g))) = S (length (b_results (vc_base c)))) /\
  (forall (c : mchk K) r g, length (b_results (mc_base (mchk_add c r g))) = S (length (b_results (mc_base c)))).
Proof. exact (fun K => conj (@size_pchk K) (conj (@size_vchk K) (@size_mchk K))). Qed.
Print Assumptions C12_add_grows_by_one.

(* built-in callback without target precision (target not above zero): every requested iteration is
   performed, for every integrator, integrand and results whatsoever - any Num *)
Theorem C12_no_target_never_ends_early :
  forall (K : Num) (C R Evt : Type) (gen_of : C -> res N) (iterate : C -> N -> N -> N -> res (R * N * N * list Evt))
         (add : C -> R -> N -> C) (mains : C -> list (mcres K)) (target : K) cs c idx c' idx' ls,
    ltb K (zero K) target = false ->
    run C R Evt gen_of iterate add (fun c => decide target (mains c)) cs c idx = Ok (c', idx', ls) ->
    length ls = length cs.
Proof. exact (@c12_no_target_all_iterations). Qed.
Print Assumptions C12_no_target_never_ends_early.

(* the default target T() satisfies that hypothesis in all three floating-point formats and over the reals *)
Theorem C12_zero_is_no_target :
  (forall prec emax H1 H2, ltb (NumB prec emax H1 H2) (zero (NumB prec emax H1 H2)) (zero (NumB prec emax H1 H2)) = false) /\
  ltb NumR (zero NumR) (zero NumR) = false.
Proof. exact (conj ltb_zero_zero_B ltb_zero_zero_R). Qed.
Print Assumptions C12_zero_is_no_target.

(* positive target: the run is not ended before the combined relative error is <= target, and if it is
   ended early then the last performed iteration reached the target *)
Theorem C12_target_ends_at_first_reached :
  forall (K : Num) (C R Evt : Type) (gen_of : C -> res N) (iterate : C -> N -> N -> N -> res (R * N * N * list Evt))
         (add : C -> R -> N -> C) (mains : C -> list (mcres K)) (target : K) cs c idx c' idx' ls,
    ltb K (zero K) target = true ->
    run C R Evt gen_of iterate add (fun c => decide target (mains c)) cs c idx = Ok (c', idx', ls) ->
    Forall (fun l => leb K (rel_err_all (mains (il_chk l))) target = false) (removelast ls) /\
    (length ls < length cs -> exists ls0 l, ls = ls0 ++ [l] /\ leb K (rel_err_all (mains (il_chk l))) target = true).
Proof. exact (@c12_target_stops_at_first). Qed.
Print Assumptions C12_target_ends_at_first_reached.

(* the decision itself: the combined result is the variance-weighted combination (Helper.v) *)
Theorem C12_decision : forall (K : Num) (target : K) rs,
  (ltb K (zero K) target = false -> decide target rs = true) /\
  (ltb K (zero K) target = true -> decide target rs = negb (leb K (rel_err_all rs) target)).
Proof. exact (fun K t rs => conj (@decide_no_target K t rs) (@decide_target K t rs)). Qed.
Print Assumptions C12_decision.

(* a NaN combined relative error never counts as having reached the target (floating point) *)
Theorem C12_nan_does_not_reach_target : forall prec emax H1 H2 (t : binary_float prec emax),
  leb (NumB prec emax H1 H2) B754_nan t = false.
Proof. exact leb_nan_B. Qed.
Print Assumptions C12_nan_does_not_reach_target.

(* non-vacuity: a real two-iteration PLAIN run (double, constant integrand, relative error exactly 0,
   default target) performs both iterations *)
Example C12_example : match ex_run with Ok (c, _, ls) => length ls = 2%nat /\ length (b_results c) = 2%nat | UB _ => False end.
Proof. exact c12_example. Qed.
