(** C10m - the MPI form of C10's consequence: the generator stored after every iteration of an MPI run.
    Statements only (proofs in Lemmas_C10m.v, on top of Lemmas_C12m.v / Lemmas_C04.v / Lemmas_C10.v).

    For whole runs of the three MPI drivers of Mpi.v ([mpi_plain_run], [mpi_vegas_run], [mpi_mc_run]), every
    [Num], integrand / map oracle, calls list, starting checkpoint, world size 1 <= world < 2^31, reduction order
    [perm_ok], calls < 2^64, rank-independent decision: if the run is defined then
    ([stored_positions gen_of usage g cs sts' logs], Lemmas_C10m.v)
    - EVERY rank's checkpoint after iteration i stores the generator  g + (calls_0 + ... + calls_i) * usage,
      where g is the generator stored in the prepared starting checkpoint and usage = d (PLAIN), the dimensions
      of the first grid (VEGAS; the grid keeps its dimensions), d + 1 (multi-channel) - whatever share of the
      calls the rank evaluated itself ([discard_before] / [discard_after] skip the rest, C04_generator_position);
    - every returned rank state sits at g + (calls of all performed iterations) * usage and its checkpoint
      stores exactly that generator (so a resumed run continues at the serial position).
    This is the formula of C10_stored_generator / C10_plain_stored_generator for the serial drivers;
    C10m_vegas_serial_stored / C10m_mc_serial_stored supply the serial VEGAS and multi-channel instances that C10
    does not state, and C10m_*_same_as_serial conclude: the generator every rank stores with iteration i is the
    generator the serial run from the same checkpoint stores with iteration i (for any two callbacks, whenever
    both runs perform iteration i).  C10m_loop_stored is the generic form for any instance of the MPI loop.
    NOT proved here: anything about undefined runs; the raw-draw cost per canonical number (C10_usage_is_cost). *)
From Coq Require Import ZArith NArith List Bool.
From HepMC Require Import Num NumB Translated Result Accum VegasPdf Discrete MultiChannel Helper Iter Chkpt Callback Run Mpi
  Lemmas_Run Lemmas_C16 Lemmas_C10 Lemmas_C12 Lemmas_C04 Lemmas_C19 Lemmas_C12m Lemmas_C10m.
Import ListNotations.

(* generic: any instance of the loop of all ranks whose [add] stores the generator it is given *)
Theorem C10m_loop_stored : forall (K : Num) (C S R : Type) world sub_calls usage
    (local_iter : S -> N -> N -> N -> res (R * N * N * list (event K))) rebuild
    (addc : C -> R -> N -> C) cb refine (gen_of : C -> res N),
  (forall c r g, gen_of (addc c r g) = Ok g) ->
  forall cs c g a logs tr c' g' a' rest,
  MExec C S R world sub_calls usage local_iter rebuild addc cb refine cs c g a logs tr c' g' a' rest ->
  (forall i ls l, nth_error logs i = Some ls -> In l ls ->
     gen_of (rl_chk l) = Ok (g + sumN (firstn (Datatypes.S i) cs) * usage)%N) /\
  g' = (g + sumN (firstn (length logs) cs) * usage)%N /\
  (gen_of c = Ok g -> gen_of c' = Ok g').
Proof. exact (@mexec_stored). Qed.
Print Assumptions C10m_loop_stored.

Theorem C10m_plain_stored : forall (K : Num) (strm : N -> K) ps f world perm d cb cs (c : pchk K) idx g sts' logs,
  world_ok world -> perm_ok world perm -> cb_rank_independent cb -> Forall (fun calls => (calls < 2 ^ 64)%N) cs ->
  base_gen c = Ok g -> mpi_plain_run strm ps f world perm d cb cs c idx = Ok (sts', logs) ->
  (forall i ls l, nth_error logs i = Some ls -> In l ls ->
     base_gen (rl_chk l) = Ok (g + sumN (firstn (S i) cs) * N.of_nat d)%N) /\
  (forall st, In st sts' -> rs_gen st = (g + sumN (firstn (length logs) cs) * N.of_nat d)%N /\ base_gen (rs_chk st) = Ok (rs_gen st)).
Proof. exact (@c10m_plain_stored). Qed.
Print Assumptions C10m_plain_stored.

Theorem C10m_vegas_stored : forall (K : Num) (L : Libm K) (strm : N -> K) ps f world perm d cb cs (c : vchk K) idx g p sts' logs,
  world_ok world -> perm_ok world perm -> cb_rank_independent cb -> Forall (fun calls => (calls < 2 ^ 64)%N) cs ->
  base_gen (vc_base (vchk_dimensions c d)) = Ok g -> vchk_pdf L (vchk_dimensions c d) = Ok p ->
  mpi_vegas_run L strm ps f world perm d cb cs c idx = Ok (sts', logs) ->
  ((forall i ls l, nth_error logs i = Some ls -> In l ls ->
      base_gen (vc_base (rl_chk l)) = Ok (g + sumN (firstn (S i) cs) * pdf_dims p)%N) /\
   (forall st, In st sts' -> rs_gen st = (g + sumN (firstn (length logs) cs) * pdf_dims p)%N /\
                             base_gen (vc_base (rs_chk st)) = Ok (rs_gen st))) /\
  Forall (fun st => pdf_dims (rs_aux st) = pdf_dims p) sts'.
Proof. exact (@c10m_vegas_stored). Qed.
Print Assumptions C10m_vegas_stored.

Theorem C10m_mc_stored : forall (K : Num) (L : Libm K) (strm : N -> K) ps f world perm mp d channels cb cs (c : mchk K) idx g sts' logs,
  world_ok world -> perm_ok world perm -> cb_rank_independent cb -> Forall (fun calls => (calls < 2 ^ 64)%N) cs ->
  base_gen (mc_base (mchk_channels c channels)) = Ok g ->
  mpi_mc_run L strm ps f world perm mp d channels cb cs c idx = Ok (sts', logs) ->
  (forall i ls l, nth_error logs i = Some ls -> In l ls ->
     base_gen (mc_base (rl_chk l)) = Ok (g + sumN (firstn (S i) cs) * (N.of_nat d + 1))%N) /\
  (forall st, In st sts' -> rs_gen st = (g + sumN (firstn (length logs) cs) * (N.of_nat d + 1))%N /\
                            base_gen (mc_base (rs_chk st)) = Ok (rs_gen st)).
Proof. exact (@c10m_mc_stored). Qed.
Print Assumptions C10m_mc_stored.

(* the serial positions for hep::vegas and hep::multi_channel (the instance for hep::plain is
   C10_plain_stored_generator) *)
Theorem C10m_vegas_serial_stored : forall (K : Num) (L : Libm K) (strm : N -> K) ps f d cb cs (c : vchk K) idx c' idx' ls g p,
  vegas_run L strm ps f d cb cs c idx = Ok (c', idx', ls) ->
  base_gen (vc_base (vchk_dimensions c d)) = Ok g -> vchk_pdf L (vchk_dimensions c d) = Ok p ->
  forall i l, nth_error ls i = Some l ->
    base_gen (vc_base (il_chk l)) = Ok (g + sumN (firstn (S i) cs) * pdf_dims p)%N.
Proof. exact (@c10m_vegas_serial_stored). Qed.
Print Assumptions C10m_vegas_serial_stored.

Theorem C10m_mc_serial_stored : forall (K : Num) (L : Libm K) (strm : N -> K) ps f mp d channels cb cs (c : mchk K) idx c' idx' ls g,
  mc_run L strm ps f mp d channels cb cs c idx = Ok (c', idx', ls) ->
  base_gen (mc_base (mchk_channels c channels)) = Ok g ->
  forall i l, nth_error ls i = Some l ->
    base_gen (mc_base (il_chk l)) = Ok (g + sumN (firstn (S i) cs) * (N.of_nat d + 1))%N.
Proof. exact (@c10m_mc_serial_stored). Qed.
Print Assumptions C10m_mc_serial_stored.

(* every rank stores with iteration i what the serial run stores with iteration i *)
Theorem C10m_plain_same_as_serial : forall (K : Num) (strm : N -> K) ps f world perm d cbm cbs cs (c : pchk K) idxm idxs
    sts' logs cser idxser lser,
  world_ok world -> perm_ok world perm -> cb_rank_independent cbm -> Forall (fun calls => (calls < 2 ^ 64)%N) cs ->
  mpi_plain_run strm ps f world perm d cbm cs c idxm = Ok (sts', logs) ->
  plain_run strm ps f d cbs cs c idxs = Ok (cser, idxser, lser) ->
  forall i ls l lr, nth_error logs i = Some ls -> In l ls -> nth_error lser i = Some lr ->
    base_gen (rl_chk l) = base_gen (il_chk lr).
Proof. exact (@c10m_plain_same_as_serial). Qed.
Print Assumptions C10m_plain_same_as_serial.

Theorem C10m_vegas_same_as_serial : forall (K : Num) (L : Libm K) (strm : N -> K) ps f world perm d cbm cbs cs (c : vchk K) idxm idxs
    sts' logs cser idxser lser,
  world_ok world -> perm_ok world perm -> cb_rank_independent cbm -> Forall (fun calls => (calls < 2 ^ 64)%N) cs ->
  mpi_vegas_run L strm ps f world perm d cbm cs c idxm = Ok (sts', logs) ->
  vegas_run L strm ps f d cbs cs c idxs = Ok (cser, idxser, lser) ->
  forall i ls l lr, nth_error logs i = Some ls -> In l ls -> nth_error lser i = Some lr ->
    base_gen (vc_base (rl_chk l)) = base_gen (vc_base (il_chk lr)).
Proof. exact (@c10m_vegas_same_as_serial). Qed.
Print Assumptions C10m_vegas_same_as_serial.

Theorem C10m_mc_same_as_serial : forall (K : Num) (L : Libm K) (strm : N -> K) ps f mp world perm d channels cbm cbs cs (c : mchk K) idxm idxs
    sts' logs cser idxser lser,
  world_ok world -> perm_ok world perm -> cb_rank_independent cbm -> Forall (fun calls => (calls < 2 ^ 64)%N) cs ->
  mpi_mc_run L strm ps f world perm mp d channels cbm cs c idxm = Ok (sts', logs) ->
  mc_run L strm ps f mp d channels cbs cs c idxs = Ok (cser, idxser, lser) ->
  forall i ls l lr, nth_error logs i = Some ls -> In l ls -> nth_error lser i = Some lr ->
    base_gen (mc_base (rl_chk l)) = base_gen (mc_base (il_chk lr)).
Proof. exact (@c10m_mc_same_as_serial). Qed.
Print Assumptions C10m_mc_same_as_serial.

(* non-vacuity: C04's example run (3 ranks, d = 2, calls 4 and 1, start generator 0) is defined and every rank
   stores 8 with iteration 0 and 10 with iteration 1 and ends at 10; the hypotheses of C10m_plain_stored hold *)
Example C10m_example : ex10m_check = true /\ (exists sts logs, ex04_mpi = Ok (sts, logs)) /\
  base_gen (base_init 0 : pchk B64) = Ok 0%N /\ world_ok 3 /\ perm_ok 3 [2; 0; 1]%N /\
  cb_rank_independent (fun (_ : N) (_ : pchk B64) => true) /\ Forall (fun calls => (calls < 2 ^ 64)%N) [4; 1]%N.
Proof. exact c10m_example. Qed.
