(** C20 - reporting never changes or breaks a run.
    Statements only (proofs in Lemmas_C20.v).

    WHAT IS PROVED
    1. Mode independence ([C20_decision_mode_independent], [C20_run_mode_independent],
       [C20_run_answers_only]).  In the model the built-in callback is
       [builtin_callback decision m c = (decision c, mode_prints m, if mode_writes m then Some c else None)]
       and the integrator receives only the first component ([cb_of_mode_* m target]); the decision is
       [decide target results] of Callback.v, which has no mode argument.  So the first two theorems are true
       BY CONSTRUCTION of the model and carry no weight of their own: the substance of this half of C20 lies
       in the correspondence check, which runs the real hep::callback in all four modes and compares the
       serialised checkpoints.  What the model does add is [C20_run_answers_only]: the driver loops of all
       three integrators depend on a callback only through its boolean answers (no functional
       extensionality needed), so ANY callback whose answers agree with the built-in decision - the four
       modes, the MPI wrapper that forces silent mode on ranks > 0 - returns the same checkpoint, the same
       integrand-call counter and the same log (which contains every checkpoint handed to a callback and
       hence to later iterations).
    2. Index safety and termination of the multi-channel summary, for EVERY [Num] (all float formats, NaN
       and infinite weights included) and every weight vector - no hypothesis on the weights:
       [C20_weight_info_shape] (the sorted channel list is a duplicate-free permutation of 0..n-1, the three
       arrays have n entries, every index handed to .at() is < n, 1 <= minimal_weight_count <= n),
       [C20_summary_indices_in_range] (every index the weight_printer uses is in [minc, channels), every
       size_t subtraction is exact: the list equals the one computed with integer subtraction),
       [C20_list_of_ranges_covers] (for ANY index list, sorted or not: structural recursion, the ranges
       (a,b) have a <= b, are maximal, and expand back to exactly the input list),
       [C20_pairs_max_defined] (multi_channel_max_difference is defined iff there is at least one channel).
    3. Reachability ([C20_mc_summary_safe], [C20_results_nonempty]): every checkpoint that a multi-channel
       run started from a well-formed checkpoint with n >= 1 channels ([mc_wf]: one weight and one
       adjustment entry per channel in every stored result; holds for the default and the user-weight
       constructors, [C20_mc_wf_fresh]) hands to the callback has a newest result satisfying
       [summary_safe]: all of the above at once.  For all three integrators the checkpoint the callback
       sees has a last result, so results.back() and results.size() - 1 in the per-iteration summary are
       defined.
    4. Over the reals ([C20_weights_sorted_R], [C20_expected_calls_defined_R]): the sorted weights are
       non-decreasing, and static_cast<size_t>(calls * weight) is defined (and <= calls) for weights in
       [0,1] and calls < 2^64.

    WHAT IS NOT PROVED / ASSUMED
    * In floating point the comparator [w a < w b] is a strict weak order only for non-NaN weights; with a NaN
      weight std::stable_sort has unspecified (libstdc++: still memory-safe) behaviour and the model's
      insertion sort need not produce the same order.  The index-safety theorems above do not need the order;
      sortedness is stated for NumR only.  Non-NaN weights in [0,1] for reachable states are C08's business.
    * The model computes minimal_weight_count by a linear scan; std::upper_bound bisects.  They agree when the
      expected-calls array is sorted (true for non-NaN, non-negative weights); both are <= n in any case.
    * The float -> size_t conversion of an expected call number is proved defined only over the reals, for
      weights in [0,1]; for NaN / negative / huge weights it is undefined behaviour in the C++ (model: UB 70).
    * A multi-channel run with ZERO channels is not covered (hypothesis 1 <= n): then
      multi_channel_max_difference's loop bound size() - 1 wraps around ([pairs_max [] = UB 71]) and
      weights().front() is undefined.
    * Number formatting (operator<<), the stream and file-system effects are not modelled (C18 treats the
      file); value(), error(), chi_square_dof of the per-iteration lines are total floating-point
      expressions without indices. *)
From Coq Require Import ZArith NArith List Bool Permutation Sorted Reals.
From HepMC Require Import Num NumR NumB Result Accum VegasPdf Discrete MultiChannel Helper Iter Chkpt Callback Run
  Lemmas_Run Lemmas_C20.
Import ListNotations.

Theorem C20_decision_mode_independent : forall (K : Num) (m1 m2 : cbmode) (target : K),
  (forall c, cb_of_mode_plain m1 target c = cb_of_mode_plain m2 target c) /\
  (forall c, cb_of_mode_vegas m1 target c = cb_of_mode_vegas m2 target c) /\
  (forall c, cb_of_mode_mc m1 target c = cb_of_mode_mc m2 target c) /\
  (forall (C : Type) (dec : C -> bool) m c,
     ce_writes (builtin_callback dec m c) = if mode_writes m then Some c else None).
Proof. exact (@c20_decision_mode_independent). Qed.
Print Assumptions C20_decision_mode_independent.

Theorem C20_run_mode_independent : forall (K : Num) (L : Libm K) strm ps f mp (m1 m2 : cbmode) (target : K),
  (forall d cs c idx, plain_run strm ps f d (cb_of_mode_plain m1 target) cs c idx
                    = plain_run strm ps f d (cb_of_mode_plain m2 target) cs c idx) /\
  (forall d cs c idx, vegas_run L strm ps f d (cb_of_mode_vegas m1 target) cs c idx
                    = vegas_run L strm ps f d (cb_of_mode_vegas m2 target) cs c idx) /\
  (forall d channels cs c idx, mc_run L strm ps f mp d channels (cb_of_mode_mc m1 target) cs c idx
                             = mc_run L strm ps f mp d channels (cb_of_mode_mc m2 target) cs c idx).
Proof. exact (@c20_run_mode_independent). Qed.
Print Assumptions C20_run_mode_independent.

Theorem C20_run_answers_only : forall (K : Num) (L : Libm K) strm ps f mp (target : K),
  (forall cb, (forall c, cb c = cb_plain target c) ->
     forall d cs c idx, plain_run strm ps f d cb cs c idx = plain_run strm ps f d (cb_plain target) cs c idx) /\
  (forall cb, (forall c, cb c = cb_vegas target c) ->
     forall d cs c idx, vegas_run L strm ps f d cb cs c idx = vegas_run L strm ps f d (cb_vegas target) cs c idx) /\
  (forall cb, (forall c, cb c = cb_mc target c) ->
     forall d channels cs c idx, mc_run L strm ps f mp d channels cb cs c idx
                               = mc_run L strm ps f mp d channels (cb_mc target) cs c idx).
Proof. exact (@c20_run_answers_only). Qed.
Print Assumptions C20_run_answers_only.

Theorem C20_weight_info_shape : forall (K : Num) (calls : N) (ws : list K),
  let wi := weight_info calls ws in
  let n := length ws in
  Permutation (wi_channels wi) (iotaN2 0 n) /\ NoDup (wi_channels wi) /\
  Forall (fun c => (c < N.of_nat n)%N) (wi_channels wi) /\
  length (wi_channels wi) = n /\ length (wi_weights wi) = n /\ length (wi_calls wi) = n /\
  wi_weights wi = map (fun c => nth (N.to_nat c) ws (zero K)) (wi_channels wi) /\
  (forall c, In c (wi_channels wi) -> exists w, nth_error ws (N.to_nat c) = Some w) /\
  (wi_min wi <= N.of_nat n)%N /\ ((1 <= n)%nat -> (1 <= wi_min wi)%N).
Proof. exact (@c20_weight_info_shape). Qed.
Print Assumptions C20_weight_info_shape.

Theorem C20_stable_sort_permutation : forall (lt : N -> N -> bool) (l : list N), Permutation (stable_sort lt l) l.
Proof. exact stable_sort_perm. Qed.
Print Assumptions C20_stable_sort_permutation.

Theorem C20_summary_indices_in_range : forall (channels minc : N),
  (1 <= minc <= channels)%N ->
  Forall (fun i => (minc <= i < channels)%N) (summary_indices channels minc) /\
  map Z.of_N (summary_indices channels minc) = summary_indices_Z (Z.of_N channels) (Z.of_N minc) /\
  length (summary_indices channels minc) = N.to_nat (if (channels - minc <=? 12)%N then channels - minc else 11).
Proof. exact c20_summary_indices_in_range. Qed.
Print Assumptions C20_summary_indices_in_range.

Theorem C20_list_of_ranges_covers : forall (l : list N),
  concat (map expand_range (list_of_ranges l)) = l /\
  Forall (fun r => (fst r <= snd r)%N) (list_of_ranges l) /\
  ranges_maximal (list_of_ranges l) /\
  (length (list_of_ranges l) <= length l)%nat.
Proof. exact c20_list_of_ranges_covers. Qed.
Print Assumptions C20_list_of_ranges_covers.

Theorem C20_pairs_max_defined : forall (K : Num) (adj : list K),
  (adj <> [] -> exists m, pairs_max adj = Ok m) /\ (adj = [] -> pairs_max adj = UB 71).
Proof. exact (@c20_pairs_max_defined). Qed.
Print Assumptions C20_pairs_max_defined.

Theorem C20_mc_summary_safe : forall (K : Num) (L : Libm K) strm ps f mp n d channels cb cs (c : mchk K) idx c' idx' ls,
  (1 <= n)%nat -> mc_wf n (mchk_channels c channels) ->
  mc_run L strm ps f mp d channels cb cs c idx = Ok (c', idx', ls) ->
  Forall (fun l => exists rs r, b_results (mc_base (il_chk l)) = rs ++ [r] /\
                                length (m_weights r) = n /\ length (m_adj r) = n /\ summary_safe r) ls.
Proof. exact (@c20_mc_summary_safe). Qed.
Print Assumptions C20_mc_summary_safe.

Theorem C20_mc_wf_fresh : forall (K : Num) (L : Libm K),
  (forall minw beta g n, mc_wf (N.to_nat n) (mchk_channels (mchk_default minw beta g : mchk K) n)) /\
  (forall ws minw beta g c n, ws <> [] -> mchk_user L ws minw beta g = Ok c -> mc_wf (length ws) (mchk_channels c n)).
Proof. exact (fun K L => conj (@mc_wf_default K) (@mc_wf_user K L)). Qed.
Print Assumptions C20_mc_wf_fresh.

Theorem C20_results_nonempty : forall (K : Num) (L : Libm K) strm ps f mp,
  (forall d cb cs c idx c' idx' ls, plain_run strm ps f d cb cs c idx = Ok (c', idx', ls) ->
     Forall (fun l => exists rs r, b_results (il_chk l) = rs ++ [r]) ls) /\
  (forall d cb cs c idx c' idx' ls, vegas_run L strm ps f d cb cs c idx = Ok (c', idx', ls) ->
     Forall (fun l => exists rs r, b_results (vc_base (il_chk l)) = rs ++ [r]) ls) /\
  (forall d channels cb cs c idx c' idx' ls, mc_run L strm ps f mp d channels cb cs c idx = Ok (c', idx', ls) ->
     Forall (fun l => exists rs r, b_results (mc_base (il_chk l)) = rs ++ [r]) ls).
Proof. exact (@c20_results_nonempty). Qed.
Print Assumptions C20_results_nonempty.

Theorem C20_weights_sorted_R : forall (calls : N) (ws : list R),
  StronglySorted Rle (wi_weights (@weight_info NumR calls ws)).
Proof. exact c20_weights_sorted_R. Qed.
Print Assumptions C20_weights_sorted_R.

Theorem C20_expected_calls_defined_R : forall (calls : N) (ws : list R),
  (calls < 2 ^ 64)%N -> Forall (fun w => (0 <= w <= 1)%R) ws ->
  Forall (fun c => exists n, c = Ok n /\ (n <= calls)%N) (wi_calls (@weight_info NumR calls ws)).
Proof. exact c20_expected_calls_defined_R. Qed.
Print Assumptions C20_expected_calls_defined_R.

(* non-vacuity: 20 double-precision weights, unsorted, two sharing the minimum (disabled channels): the
   sorted channel list, the minimal count, the printed indices (5 + 5 + 1 of 18 non-minimal ones), ranges,
   and the boundary cases 3, 1 and 14 channels *)
Example C20_example_info :
  wi_channels ex20_wi = [1; 11; 4; 14; 7; 17; 0; 10; 3; 13; 6; 16; 9; 19; 2; 12; 5; 15; 8; 18]%N /\
  wi_min ex20_wi = 2%N /\
  summary_indices 20 (wi_min ex20_wi) = [2; 3; 4; 5; 6; 14; 15; 16; 17; 18; 19]%N /\
  list_of_ranges [1; 2; 3; 7; 9; 10]%N = [(1, 3); (7, 7); (9, 10)]%N /\
  summary_indices 3 1 = [1; 2]%N /\ summary_indices 1 1 = [] /\ summary_indices 14 1 = [1; 2; 3; 4; 5; 8; 9; 10; 11; 12; 13]%N.
Proof. exact c20_example_info. Qed.

(* a fresh two-channel checkpoint is well formed and a real two-iteration run from it succeeds (verbose mode) *)
Example C20_example_run :
  mc_wf 2 (mchk_channels (mchk_default (zero B64) (one B64) 0) 2) /\
  match ex20_run Verbose with Ok (c, _, ls) => length ls = 2%nat /\ length (b_results (mc_base c)) = 2%nat | UB _ => False end.
Proof. exact c20_example_run. Qed.

Example C20_example_R : (1000 < 2 ^ 64)%N /\ Forall (fun w : R => (0 <= w <= 1)%R) [/ 2; / 4; 0; / 4]%R.
Proof. exact c20_example_R. Qed.
