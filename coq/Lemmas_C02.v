(** Lemmas for C02: each iteration result is the documented estimator of the sampled values.
    Specification functions (what "the calls of an iteration" are, the filtered Kahan fold, the
    per-bin / per-channel adjustment sums) and all proofs.  Statements: Properties_C02.v. *)
From Coq Require Import ZArith NArith List Bool Lia Reals Lra.
From Coq Require String.
From HepMC Require Import Num NumB NumR Translated Result Accum VegasPdf Discrete MultiChannel Iter Chkpt Callback Run
  Lemmas_Run Lemmas_C10.
Import ListNotations.

(** ** generic list facts *)
Lemma set_nth_length {A} (l : list A) i a : length (set_nth l i a) = length l.
Proof. revert i. induction l as [|x l IH]; intros [|i]; cbn; auto. Qed.

Lemma set_nth_same {A} (l : list A) i a old : nth_error l i = Some old -> nth_error (set_nth l i a) i = Some a.
Proof. revert i. induction l as [|x l IH]; intros [|i]; cbn; intros H; try discriminate; auto. Qed.

Lemma set_nth_other {A} (l : list A) i k a : i <> k -> nth_error (set_nth l i a) k = nth_error l k.
Proof.
  revert i k. induction l as [|x l IH]; intros [|i] [|k] H; cbn; auto; try congruence.
Qed.

Lemma nthN_setN_same {A} (l : list A) i a old : nthN l i = Some old -> nthN (setN l i a) i = Some a.
Proof. unfold nthN, setN. apply set_nth_same. Qed.

Lemma nthN_setN_other {A} (l : list A) i k a : i <> k -> nthN (setN l i a) k = nthN l k.
Proof. unfold nthN, setN. intros H. apply set_nth_other. intros E. apply H. apply N2Nat.inj. exact E. Qed.

Lemma getN_Ok {A} code (l : list A) i a : getN code l i = Ok a -> nthN l i = Some a.
Proof. unfold getN. destruct (nthN l i); intros H; [injection H as <-; reflexivity|discriminate]. Qed.

Lemma nth_error_repeat {A} (a : A) n i : (i < n)%nat -> nth_error (repeat a n) i = Some a.
Proof. revert i. induction n as [|n IH]; intros [|i] H; cbn; try lia; auto. apply IH. lia. Qed.

Section Spec.
  Context {K : Num}.

  (** *** the calls of an iteration, read off its event list *)
  Definition ev_obs (e : event K) : list (obs K) := match e with EvIntegrand o _ => [o] | _ => [] end.
  (* what the integrand saw, one entry per call, in call order *)
  Definition call_obs (evs : list (event K)) : list (obs K) := flat_map ev_obs evs.

  Lemma call_obs_app a b : call_obs (a ++ b) = call_obs a ++ call_obs b.
  Proof. apply flat_map_app. Qed.

  Lemma call_obs_rev evs : call_obs (rev evs) = rev (call_obs evs).
  Proof.
    induction evs as [|e evs IH]; [reflexivity|]. cbn [rev]. rewrite call_obs_app, IH.
    change (call_obs (e :: evs)) with (ev_obs e ++ call_obs evs). rewrite rev_app_distr.
    f_equal. destruct e; reflexivity.
  Qed.

  Lemma call_obs_repeat_dens ch us coords en n : call_obs (repeat (EvMapDens ch us coords en) n) = [].
  Proof. induction n; cbn; auto. Qed.

  Variable f : integrand K.

  (** the (integrand value, point weight) pairs of the calls, in call order *)
  Definition vals (evs : list (event K)) : list (K * K) :=
    map (fun o => (i_val (f o), o_weight o)) (call_obs evs).

  (** accumulator::invoke folded over the calls *)
  Definition main_fold (vs : list (K * K)) (c : cell K) : cell K :=
    fold_left (fun c vw => fst (invoke_main c (fst vw) (snd vw))) vs c.

  (** the filters of the property text *)
  Definition countedb (vw : K * K) : bool := neqb (fst vw) (zero K).                       (* non-zero *)
  Definition keptb (vw : K * K) : bool := neqb (fst vw) (zero K) && isfinite K (mul K (fst vw) (snd vw)).
  Definition prod (vw : K * K) : K := mul K (fst vw) (snd vw).

  (** the value the accumulator hands back to the integrator: f*w, or zero if that is not finite;
      a value comparing equal to zero is handed back unchanged *)
  Definition sanitised (v w : K) : K :=
    if neqb v (zero K) then (if isfinite K (mul K v w) then mul K v w else zero K) else v.

  Lemma invoke_main_snd a v w : snd (invoke_main a v w) = sanitised v w.
  Proof. unfold invoke_main, sanitised. destruct (neqb v (zero K)); [destruct (isfinite K (mul K v w))|]; reflexivity. Qed.

  (** the translated [accumulate] folded over a list of values, on (sum, sumsq, compensation) *)
  Definition acc3 (xs : list K) (t : K * K * K) : K * K * K :=
    fold_left (fun t x => let '(s, ss, c) := t in accumulate K s ss c x) xs t.

  Definition cell3 (c : cell K) : K * K * K := (c_sum c, c_sumsq c, c_comp c).

  Lemma cell_add_cell3 (c : cell K) x : cell3 (cell_add c x) = acc3 [x] (cell3 c).
  Proof.
    unfold cell_add, cell3, acc3. cbn [fold_left].
    destruct (accumulate K (c_sum c) (c_sumsq c) (c_comp c) x) as [[s ss] cp]. reflexivity.
  Qed.

  Lemma cell_add_counts (c : cell K) x : c_nz (cell_add c x) = (c_nz c + 1)%N /\ c_fin (cell_add c x) = (c_fin c + 1)%N.
  Proof.
    unfold cell_add. destruct (accumulate K (c_sum c) (c_sumsq c) (c_comp c) x) as [[s ss] cp]. cbn. auto.
  Qed.

  Lemma fold_cell_add xs : forall c : cell K,
    cell3 (fold_left cell_add xs c) = acc3 xs (cell3 c) /\
    c_nz (fold_left cell_add xs c) = (c_nz c + N.of_nat (length xs))%N /\
    c_fin (fold_left cell_add xs c) = (c_fin c + N.of_nat (length xs))%N.
  Proof.
    induction xs as [|x xs IH]; intros c.
    - cbn. rewrite !N.add_0_r. auto.
    - cbn [fold_left length]. destruct (IH (cell_add c x)) as (H1 & H2 & H3).
      destruct (cell_add_counts c x) as [E1 E2].
      rewrite H1, H2, H3, E1, E2, cell_add_cell3. split; [reflexivity|]. split; lia.
  Qed.

  (** the main accumulator after any list of calls = the translated [accumulate] folded over the
      sanitised products, in call order; the counters are the lengths of the two filters *)
  Lemma main_fold_cons v w vs (c : cell K) :
    main_fold ((v, w) :: vs) c = main_fold vs (fst (invoke_main c v w)).
  Proof. reflexivity. Qed.

  Lemma main_fold_spec vs : forall c : cell K,
    let kept := map prod (filter keptb vs) in
    cell3 (main_fold vs c) = cell3 (fold_left cell_add kept c) /\
    cell3 (main_fold vs c) = acc3 kept (cell3 c) /\
    c_nz (main_fold vs c) = (c_nz c + N.of_nat (length (filter countedb vs)))%N /\
    c_fin (main_fold vs c) = (c_fin c + N.of_nat (length (filter keptb vs)))%N.
  Proof.
    cbv zeta. induction vs as [|[v w] vs IH]; intros c.
    - cbn. rewrite !N.add_0_r. auto.
    - rewrite main_fold_cons.
      destruct (IH (fst (invoke_main c v w))) as (_ & H1 & H2 & H3).
      rewrite H1, H2, H3. clear H1 H2 H3.
      rewrite (proj1 (fold_cell_add _ _)).
      assert (Ek : keptb (v, w) = neqb v (zero K) && isfinite K (mul K v w)) by reflexivity.
      assert (Ec : countedb (v, w) = neqb v (zero K)) by reflexivity.
      cbn [filter]. rewrite Ek, Ec. clear Ek Ec.
      unfold invoke_main.
      destruct (neqb v (zero K)) eqn:En; cbn [andb].
      + destruct (isfinite K (mul K v w)) eqn:Ef; cbn [fst map length].
        * destruct (cell_add_counts c (mul K v w)) as [E1 E2].
          rewrite E1, E2, cell_add_cell3. unfold prod at 2 4. cbn [fst snd acc3 fold_left]. repeat split; lia.
        * cbn. repeat split; lia.
      + cbn. repeat split; lia.
  Qed.

  Lemma main_fold_app a b c : main_fold (a ++ b) c = main_fold b (main_fold a c).
  Proof. apply fold_left_app. Qed.

  (** *** what a main result must look like, given the requested calls and the events *)
  Definition main_spec (calls : N) (evs : list (event K)) (m : mcres K) : Prop :=
    let vs := vals evs in
    let kept := map prod (filter keptb vs) in
    m = cell_result calls (main_fold vs cell0) /\
    (r_sum m, r_sumsq m, c_comp (main_fold vs cell0)) = acc3 kept (zero K, zero K, zero K) /\
    (r_sum m, r_sumsq m, c_comp (main_fold vs cell0)) = cell3 (fold_left cell_add kept cell0) /\
    r_nz m = N.of_nat (length (filter countedb vs)) /\
    r_fin m = N.of_nat (length (filter keptb vs)) /\
    r_calls m = calls.

  Lemma main_spec_intro calls evs c :
    c = main_fold (vals evs) cell0 -> main_spec calls evs (cell_result calls c).
  Proof.
    intros ->. unfold main_spec. cbv zeta.
    destruct (main_fold_spec (vals evs) cell0) as (H0 & H1 & H2 & H3). cbv zeta in H0, H1.
    unfold cell_result. cbn [r_sum r_sumsq r_nz r_fin r_calls].
    split; [reflexivity|]. split; [exact H1|]. split; [exact H0|]. cbn in H2, H3. auto.
  Qed.

  (** *** VEGAS adjustment data: explicit specification over the call list *)
  (* the calls as the adjustment code sees them: bin indices and sanitised value *)
  Definition vcalls (evs : list (event K)) : list (list N * K) :=
    map (fun o => (o_bins o, sanitised (i_val (f o)) (o_weight o))) (call_obs evs).

  (* one call: walk over the dimensions j, j+1, ...; add [sq] whenever the flat index is [i] *)
  Fixpoint sq_hits (bins i j : N) (bs : list N) (sq acc : K) : K :=
    match bs with
    | [] => acc
    | b :: bs' => sq_hits bins i (j + 1) bs' sq (if N.eqb (j * bins + b) i then add K acc sq else acc)
    end.
  (* entry with flat index [i] *)
  Fixpoint vegas_adj_flat (bins i : N) (calls : list (list N * K)) (acc : K) : K :=
    match calls with
    | [] => acc
    | (bs, v) :: rest => vegas_adj_flat bins i rest (sq_hits bins i 0 bs (mul K v v) acc)
    end.
  (* entry of dimension [j], bin [b]: the sum of v^2 over the calls whose bin in dimension j is b *)
  Fixpoint vegas_adj_bin (j b : N) (calls : list (list N * K)) (acc : K) : K :=
    match calls with
    | [] => acc
    | (bs, v) :: rest =>
      vegas_adj_bin j b rest (match nthN bs j with
                              | Some b' => if N.eqb b' b then add K acc (mul K v v) else acc
                              | None => acc
                              end)
    end.

  Lemma vegas_adj_flat_app bins i a b acc :
    vegas_adj_flat bins i (a ++ b) acc = vegas_adj_flat bins i b (vegas_adj_flat bins i a acc).
  Proof. revert acc. induction a as [|[bs v] a IH]; intros acc; cbn; auto. Qed.

  Lemma add_squares_spec bins sq bs : forall adj j adj',
    add_squares adj bins j bs sq = Ok adj' ->
    length adj' = length adj /\
    forall i, nthN adj' i = option_map (sq_hits bins i j bs sq) (nthN adj i).
  Proof.
    induction bs as [|b bs IH]; intros adj j adj' H; cbn [add_squares] in H.
    - injection H as <-. split; [reflexivity|]. intros i. cbn. destruct (nthN adj i); reflexivity.
    - apply bind_Ok in H as (old & Ho & H). apply getN_Ok in Ho.
      apply IH in H as (Hl & Hn). split.
      + rewrite Hl. unfold setN. apply set_nth_length.
      + intros i. rewrite Hn. cbn [sq_hits]. destruct (N.eqb (j * bins + b) i) eqn:E.
        * apply N.eqb_eq in E. subst i. rewrite (nthN_setN_same _ _ _ _ Ho), Ho. reflexivity.
        * apply N.eqb_neq in E. rewrite nthN_setN_other by exact E. reflexivity.
  Qed.

  (* with all bin indices in range the flat entry j*bins+b collects exactly the calls in bin b of dimension j *)
  Lemma sq_hits_in_range bins b sq bs : forall j0 j acc,
    (b < bins)%N -> Forall (fun x => (x < bins)%N) bs -> (j0 <= j)%N ->
    sq_hits bins (j * bins + b) j0 bs sq acc =
    match nthN bs (j - j0) with Some b' => if N.eqb b' b then add K acc sq else acc | None => acc end.
  Proof.
    induction bs as [|x bs IH]; intros j0 j acc Hb Hbs Hj.
    - cbn. unfold nthN. destruct (N.to_nat (j - j0)); reflexivity.
    - inversion Hbs as [|? ? Hx Hbs']; subst. cbn [sq_hits].
      destruct (N.eq_dec j j0) as [->|Hne].
      + rewrite N.sub_diag. unfold nthN at 1. cbn [N.to_nat nth_error].
        assert (E : N.eqb (j0 * bins + x) (j0 * bins + b) = N.eqb x b).
        { destruct (N.eqb x b) eqn:E1.
          - apply N.eqb_eq in E1. subst. apply N.eqb_refl.
          - apply N.eqb_neq in E1. apply N.eqb_neq. lia. }
        rewrite E.
        (* no later dimension hits the same flat index *)
        assert (Hno : forall bs' j1 a, Forall (fun x => (x < bins)%N) bs' -> (j0 < j1)%N ->
                   sq_hits bins (j0 * bins + b) j1 bs' sq a = a).
        { induction bs' as [|y bs' IH']; intros j1 a Hf Hlt; [reflexivity|].
          inversion Hf; subst. cbn [sq_hits].
          assert (E2 : N.eqb (j1 * bins + y) (j0 * bins + b) = false) by (apply N.eqb_neq; nia).
          rewrite E2. apply IH'; [assumption|lia]. }
        apply Hno; [assumption|lia].
      + assert (E2 : N.eqb (j0 * bins + x) (j * bins + b) = false) by (apply N.eqb_neq; nia).
        rewrite E2. rewrite IH by (try assumption; lia).
        unfold nthN. replace (N.to_nat (j - j0)) with (S (N.to_nat (j - (j0 + 1)))) by lia. reflexivity.
  Qed.

  Lemma vegas_adj_flat_bin bins j b calls : forall acc,
    (b < bins)%N -> Forall (fun c => Forall (fun x => (x < bins)%N) (fst c)) calls ->
    vegas_adj_flat bins (j * bins + b) calls acc = vegas_adj_bin j b calls acc.
  Proof.
    induction calls as [|[bs v] calls IH]; intros acc Hb Hf; [reflexivity|].
    inversion Hf as [|? ? H1 H2]; subst. cbn [vegas_adj_flat vegas_adj_bin]. cbn [fst] in H1.
    rewrite sq_hits_in_range by (try assumption; lia). rewrite N.sub_0_r.
    rewrite IH by assumption. reflexivity.
  Qed.

  (** *** multi-channel adjustment data *)
  Variable mp : mcmap K.
  (* the calls as the adjustment code sees them: channel densities, sanitised value, point weight *)
  Definition mcalls (ws : list K) (evs : list (event K)) : list (list K * K * K) :=
    map (fun o => (snd (m_dens mp (o_idx o) (o_channel o) (o_point o) (o_coords o) (enabled ws)),
                   sanitised (i_val (f o)) (o_weight o), o_weight o)) (call_obs evs).

  (* entry of channel [j]: sum of dens_j * v^2 * w over the calls whose sanitised value is not zero *)
  Fixpoint mc_adj_spec (j : nat) (calls : list (list K * K * K)) (acc : K) : K :=
    match calls with
    | [] => acc
    | (dens, v, w) :: rest =>
      mc_adj_spec j rest (if eqb K v (zero K) then acc
                          else add K acc (mul K (nth j dens (zero K)) (mul K (mul K v v) w)))
    end.

  Lemma mc_adj_spec_app j a b acc : mc_adj_spec j (a ++ b) acc = mc_adj_spec j b (mc_adj_spec j a acc).
  Proof. revert acc. induction a as [|[[dens v] w] a IH]; intros acc; cbn; auto. Qed.

  Lemma add_dens_spec sq : forall adj dens adj',
    add_dens adj dens sq = Ok adj' ->
    length adj' = length adj /\
    forall j, nth_error adj' j = option_map (fun a => add K a (mul K (nth j dens (zero K)) sq)) (nth_error adj j).
  Proof.
    induction adj as [|a adj IH]; intros dens adj' H; cbn [add_dens] in H.
    - injection H as <-. split; [reflexivity|]. intros [|j]; reflexivity.
    - destruct dens as [|d dens]; [discriminate|]. apply bind_Ok in H as (rest & Hr & H). injection H as <-.
      apply IH in Hr as (Hl & Hn). split; [cbn; rewrite Hl; reflexivity|].
      intros [|j]; cbn; [reflexivity|apply Hn].
  Qed.

  Lemma total_density_length : forall (ws dens : list K) acc t,
    total_density ws dens acc = Ok t -> (length ws <= length dens)%nat.
  Proof.
    induction ws as [|w ws IH]; intros dens acc t H; cbn; [lia|].
    destruct dens as [|d dens]; cbn in H; [discriminate|]. apply IH in H. cbn. lia.
  Qed.
End Spec.

(** ** the three iterations *)
Section Iterations.
  Context {K : Num}.
  Variable strm : N -> K.
  Variable ps : list (dparams K).
  Variable f : integrand K.

  Lemma finish_call_spec s o r a v : finish_call ps s o r = Ok (a, v) ->
    a_main a = fst (invoke_main (a_main (it_acc s)) (i_val r) (o_weight o)) /\
    v = sanitised (i_val r) (o_weight o) /\
    do_fills ps (o_weight o) (a_dists (it_acc s)) (i_fills r) = Ok (a_dists a).
  Proof.
    unfold finish_call. intros H. apply bind_Ok in H as (ds & Hd & H).
    rewrite <- (invoke_main_snd (a_main (it_acc s))).
    destruct (invoke_main (a_main (it_acc s)) (i_val r) (o_weight o)) as [m v']. injection H as <- <-. cbn. auto.
  Qed.

  (** what every step does to the main cell and to the list of calls *)
  Definition step_main (s s' : itst K) : Prop :=
    exists o, call_obs (it_tr s') = o :: call_obs (it_tr s) /\
              a_main (it_acc s') = fst (invoke_main (a_main (it_acc s)) (i_val (f o)) (o_weight o)).

  Lemma plain_step_main d s s' : plain_step strm ps f d s = Ok s' -> step_main s s'.
  Proof.
    unfold plain_step. intros H. apply bind_Ok in H as ([a v] & Hf & H). injection H as <-.
    apply finish_call_spec in Hf as (H1 & _). eexists. cbn [it_tr it_acc]. split; [reflexivity|]. exact H1.
  Qed.

  Lemma vegas_step_main p s s' : vegas_step strm ps f p s = Ok s' ->
    exists o, call_obs (it_tr s') = o :: call_obs (it_tr s) /\
      a_main (it_acc s') = fst (invoke_main (a_main (it_acc s)) (i_val (f o)) (o_weight o)) /\
      add_squares (it_adj s) (pdf_bins p) 0 (o_bins o)
        (mul K (sanitised (i_val (f o)) (o_weight o)) (sanitised (i_val (f o)) (o_weight o))) = Ok (it_adj s').
  Proof.
    unfold vegas_step. intros H. apply bind_Ok in H as ([[xs bs] w] & _ & H).
    apply bind_Ok in H as ([a v] & Hf & H). apply bind_Ok in H as (adj & Ha & H). injection H as <-.
    apply finish_call_spec in Hf as (H1 & -> & _). eexists. cbn [it_tr it_acc it_adj].
    split; [reflexivity|]. split; [exact H1|]. exact Ha.
  Qed.

  Variable mp : mcmap K.

  Lemma mc_step_main d ws cum en s s' : mc_step strm ps f mp d ws cum en s = Ok s' ->
    exists o, call_obs (it_tr s') = o :: call_obs (it_tr s) /\
      a_main (it_acc s') = fst (invoke_main (a_main (it_acc s)) (i_val (f o)) (o_weight o)) /\
      let dens := snd (m_dens mp (o_idx o) (o_channel o) (o_point o) (o_coords o) en) in
      let v := sanitised (i_val (f o)) (o_weight o) in
      (length ws <= length dens)%nat /\
      (if eqb K v (zero K) then Ok (it_adj s)
       else add_dens (it_adj s) dens (mul K (mul K v v) (o_weight o))) = Ok (it_adj s').
  Proof.
    unfold mc_step. destruct (m_dens mp _ _ _ _ _) as [jac dens] eqn:Ed. intros H.
    apply bind_Ok in H as (w & Hw & H). apply bind_Ok in H as ([a v] & Hf & H).
    apply bind_Ok in H as (adj & Ha & H). injection H as <-.
    apply finish_call_spec in Hf as (H1 & -> & _). eexists. cbn [it_tr it_acc it_adj].
    split; [rewrite call_obs_app, call_obs_repeat_dens; reflexivity|].
    split; [exact H1|]. cbn [o_idx o_channel o_point o_coords o_weight]. rewrite Ed. cbn [snd].
    split; [|exact Ha].
    unfold mc_weight in Hw. apply bind_Ok in Hw as (t & Ht & _). eapply total_density_length; eauto.
  Qed.

  (** the invariant of the call loop: main cell and number of calls *)
  Lemma loop_main (step : itst K -> res (itst K)) :
    (forall s s', step s = Ok s' -> step_main s s') ->
    forall n s0 s, iter_loop step n s0 = Ok s -> it_tr s0 = [] ->
      a_main (it_acc s) = main_fold (vals f (rev (it_tr s))) (a_main (it_acc s0)) /\
      length (call_obs (it_tr s)) = N.to_nat n.
  Proof.
    intros Hs n s0 s H H0. revert n s H.
    apply (iter_loop_ind step (fun k s =>
      a_main (it_acc s) = main_fold (vals f (rev (it_tr s))) (a_main (it_acc s0)) /\
      length (call_obs (it_tr s)) = N.to_nat k)).
    - rewrite H0. cbn. auto.
    - intros k s s' [I1 I2] Hst. apply Hs in Hst as (o & E1 & E2). split.
      + unfold vals in *. rewrite call_obs_rev, E1 in *. cbn [rev]. rewrite map_app, main_fold_app, <- I1.
        cbn. exact E2.
      + rewrite E1. cbn [length]. rewrite I2. lia.
  Qed.

  Lemma count_events (evs : list (event K)) : length (call_obs (rev evs)) = length (call_obs evs).
  Proof. rewrite call_obs_rev, rev_length. reflexivity. Qed.

  (** *** C02_calls_and_events *)
  Definition calls_spec (calls idx : N) (m : mcres K) (idx' : N) (evs : list (event K)) : Prop :=
    r_calls m = calls /\ length (call_obs evs) = N.to_nat calls /\ idx' = (idx + calls)%N.

  Lemma c02_plain_main d calls g idx r g' idx' evs :
    plain_iteration strm ps f d calls g idx = Ok (r, g', idx', evs) ->
    calls_spec calls idx (p_main r) idx' evs /\ main_spec f calls evs (p_main r).
  Proof.
    intros H. pose proof (plain_iteration_draws _ _ _ _ _ _ _ _ _ _ _ H) as [_ Hidx].
    unfold plain_iteration in H. apply bind_Ok in H as (s & Hl & H). injection H as <- _ _ <-.
    apply (loop_main _ (plain_step_main d)) in Hl as [H1 H2]; [|reflexivity].
    split.
    - split; [reflexivity|]. split; [rewrite count_events; exact H2|exact Hidx].
    - cbn [acc_result p_main]. apply main_spec_intro. exact H1.
  Qed.

  Lemma vegas_step_main' p s s' : vegas_step strm ps f p s = Ok s' -> step_main s s'.
  Proof. intros H. apply vegas_step_main in H as (o & H1 & H2 & _). exists o. auto. Qed.

  Lemma c02_vegas_main p calls g idx r g' idx' evs :
    vegas_iteration strm ps f p calls g idx = Ok (r, g', idx', evs) ->
    calls_spec calls idx (p_main (v_plain r)) idx' evs /\ main_spec f calls evs (p_main (v_plain r)).
  Proof.
    intros H. pose proof (vegas_iteration_draws _ _ _ _ _ _ _ _ _ _ _ H) as [_ Hidx].
    unfold vegas_iteration in H. apply bind_Ok in H as (s & Hl & H). injection H as <- _ _ <-.
    apply (loop_main _ (vegas_step_main' p)) in Hl as [H1 H2]; [|reflexivity].
    split.
    - split; [reflexivity|]. split; [rewrite count_events; exact H2|exact Hidx].
    - cbn [acc_result p_main v_plain]. apply main_spec_intro. exact H1.
  Qed.

  Lemma mc_step_main' d ws cum en s s' : mc_step strm ps f mp d ws cum en s = Ok s' -> step_main s s'.
  Proof. intros H. apply mc_step_main in H as (o & H1 & H2 & _). exists o. auto. Qed.

  Lemma c02_mc_main d ws calls g idx r g' idx' evs :
    mc_iteration strm ps f mp d ws calls g idx = Ok (r, g', idx', evs) ->
    calls_spec calls idx (p_main (m_plain r)) idx' evs /\ main_spec f calls evs (p_main (m_plain r)).
  Proof.
    intros H. pose proof (mc_iteration_draws _ _ _ _ _ _ _ _ _ _ _ _ _ H) as [_ Hidx].
    unfold mc_iteration in H. apply bind_Ok in H as (s & Hl & H). injection H as <- _ _ <-.
    apply (loop_main _ (mc_step_main' d ws _ _)) in Hl as [H1 H2]; [|reflexivity].
    split.
    - split; [reflexivity|]. split; [rewrite count_events; exact H2|exact Hidx].
    - cbn [acc_result p_main m_plain]. apply main_spec_intro. exact H1.
  Qed.

  Lemma c02_calls_and_events :
    (forall d calls g idx r g' idx' evs, plain_iteration strm ps f d calls g idx = Ok (r, g', idx', evs) ->
       calls_spec calls idx (p_main r) idx' evs) /\
    (forall p calls g idx r g' idx' evs, vegas_iteration strm ps f p calls g idx = Ok (r, g', idx', evs) ->
       calls_spec calls idx (p_main (v_plain r)) idx' evs) /\
    (forall d ws calls g idx r g' idx' evs, mc_iteration strm ps f mp d ws calls g idx = Ok (r, g', idx', evs) ->
       calls_spec calls idx (p_main (m_plain r)) idx' evs).
  Proof.
    split; [|split]; intros.
    - eapply c02_plain_main; eauto.
    - eapply c02_vegas_main; eauto.
    - eapply c02_mc_main; eauto.
  Qed.

  Lemma c02_main_is_filtered_fold :
    (forall d calls g idx r g' idx' evs, plain_iteration strm ps f d calls g idx = Ok (r, g', idx', evs) ->
       main_spec f calls evs (p_main r)) /\
    (forall p calls g idx r g' idx' evs, vegas_iteration strm ps f p calls g idx = Ok (r, g', idx', evs) ->
       main_spec f calls evs (p_main (v_plain r))) /\
    (forall d ws calls g idx r g' idx' evs, mc_iteration strm ps f mp d ws calls g idx = Ok (r, g', idx', evs) ->
       main_spec f calls evs (p_main (m_plain r))).
  Proof.
    split; [|split]; intros.
    - eapply c02_plain_main; eauto.
    - eapply c02_vegas_main; eauto.
    - eapply c02_mc_main; eauto.
  Qed.

  (** *** VEGAS adjustment data *)
  Lemma c02_vegas_adjustment p calls g idx r g' idx' evs :
    vegas_iteration strm ps f p calls g idx = Ok (r, g', idx', evs) ->
    length (v_adj r) = N.to_nat (pdf_dims p * pdf_bins p) /\
    (forall i, (i < pdf_dims p * pdf_bins p)%N ->
       nthN (v_adj r) i = Some (vegas_adj_flat (pdf_bins p) i (vcalls f evs) (zero K))) /\
    (Forall (fun c => Forall (fun b => (b < pdf_bins p)%N) (fst c)) (vcalls f evs) ->
     forall j b, (j < pdf_dims p)%N -> (b < pdf_bins p)%N ->
       nthN (v_adj r) (j * pdf_bins p + b) = Some (vegas_adj_bin j b (vcalls f evs) (zero K))).
  Proof.
    unfold vegas_iteration. intros H. apply bind_Ok in H as (s & Hl & H). injection H as <- _ _ <-.
    cbn [v_adj].
    set (n0 := N.to_nat (pdf_dims p * pdf_bins p)) in *.
    assert (HI : length (it_adj s) = n0 /\
                 forall i, nthN (it_adj s) i =
                   option_map (vegas_adj_flat (pdf_bins p) i (vcalls f (rev (it_tr s)))) (nthN (repeat (zero K) n0) i)).
    { revert Hl. apply (iter_loop_ind _ (fun _ s => length (it_adj s) = n0 /\
                 forall i, nthN (it_adj s) i =
                   option_map (vegas_adj_flat (pdf_bins p) i (vcalls f (rev (it_tr s)))) (nthN (repeat (zero K) n0) i))).
      - cbn [it_adj it_tr]. split; [apply repeat_length|]. intros i. cbn.
        destruct (nthN (repeat (zero K) n0) i); reflexivity.
      - intros k s1 s2 [I1 I2] Hst. apply vegas_step_main in Hst as (o & E1 & _ & E3).
        apply add_squares_spec in E3 as (L1 & L2). split; [congruence|].
        intros i. rewrite L2, I2. unfold vcalls. rewrite !call_obs_rev, E1. cbn [rev].
        destruct (nthN (repeat (zero K) n0) i); [|reflexivity]. cbn [option_map].
        rewrite map_app, vegas_adj_flat_app. reflexivity. }
    destruct HI as [H1 H2]. split; [exact H1|].
    assert (Hflat : forall i, (i < pdf_dims p * pdf_bins p)%N ->
              nthN (it_adj s) i = Some (vegas_adj_flat (pdf_bins p) i (vcalls f (rev (it_tr s))) (zero K))).
    { intros i Hi. rewrite H2. unfold nthN at 1. rewrite nth_error_repeat by (unfold n0; lia). reflexivity. }
    split; [exact Hflat|].
    intros Hr j b Hj Hb. rewrite Hflat by nia. f_equal. apply vegas_adj_flat_bin; assumption.
  Qed.

  (** *** multi-channel adjustment data *)
  Lemma c02_mc_adjustment d ws calls g idx r g' idx' evs :
    mc_iteration strm ps f mp d ws calls g idx = Ok (r, g', idx', evs) ->
    length (m_adj r) = length ws /\
    (forall j, (j < length ws)%nat ->
       nth_error (m_adj r) j = Some (mc_adj_spec j (mcalls f mp ws evs) (zero K))) /\
    Forall (fun c => (length ws <= length (fst (fst c)))%nat) (mcalls f mp ws evs).
  Proof.
    unfold mc_iteration. intros H. apply bind_Ok in H as (s & Hl & H). injection H as <- _ _ <-.
    cbn [m_adj].
    assert (HI : length (it_adj s) = length ws /\
                 (forall j, nth_error (it_adj s) j =
                   option_map (mc_adj_spec j (mcalls f mp ws (rev (it_tr s)))) (nth_error (repeat (zero K) (length ws)) j)) /\
                 Forall (fun c => (length ws <= length (fst (fst c)))%nat) (mcalls f mp ws (rev (it_tr s)))).
    { revert Hl. apply (iter_loop_ind _ (fun _ s => length (it_adj s) = length ws /\
                 (forall j, nth_error (it_adj s) j =
                   option_map (mc_adj_spec j (mcalls f mp ws (rev (it_tr s)))) (nth_error (repeat (zero K) (length ws)) j)) /\
                 Forall (fun c => (length ws <= length (fst (fst c)))%nat) (mcalls f mp ws (rev (it_tr s))))).
      - cbn [it_adj it_tr]. split; [apply repeat_length|]. split; [|constructor]. intros j. cbn.
        destruct (nth_error (repeat (zero K) (length ws)) j); reflexivity.
      - intros k s1 s2 (I1 & I2 & I3) Hst. apply mc_step_main in Hst as (o & E1 & _ & E3). cbv zeta in E3.
        destruct E3 as [E3 E4].
        assert (Hcalls : mcalls f mp ws (rev (it_tr s2)) = mcalls f mp ws (rev (it_tr s1)) ++
                  [(snd (m_dens mp (o_idx o) (o_channel o) (o_point o) (o_coords o) (enabled ws)),
                    sanitised (i_val (f o)) (o_weight o), o_weight o)]).
        { unfold mcalls. rewrite !call_obs_rev, E1. cbn [rev]. rewrite map_app. reflexivity. }
        rewrite Hcalls. split; [|split].
        + destruct (eqb K (sanitised (i_val (f o)) (o_weight o)) (zero K)).
          * injection E4 as <-. exact I1.
          * apply add_dens_spec in E4 as [L1 _]. congruence.
        + intros j.
          destruct (eqb K (sanitised (i_val (f o)) (o_weight o)) (zero K)) eqn:Ev.
          * injection E4 as <-. rewrite I2. destruct (nth_error (repeat (zero K) (length ws)) j); [|reflexivity].
            cbn [option_map]. rewrite mc_adj_spec_app. cbn [mc_adj_spec]. rewrite Ev. reflexivity.
          * apply add_dens_spec in E4 as [_ L2]. rewrite L2, I2.
            destruct (nth_error (repeat (zero K) (length ws)) j); [|reflexivity].
            cbn [option_map]. rewrite mc_adj_spec_app. cbn [mc_adj_spec]. rewrite Ev. reflexivity.
        + apply Forall_app. split; [exact I3|]. constructor; [|constructor]. cbn [fst]. exact E3. }
    destruct HI as (H1 & H2 & H3). split; [exact H1|]. split; [|exact H3].
    intros j Hj. rewrite H2, nth_error_repeat by exact Hj. reflexivity.
  Qed.
End Iterations.

(** ** ideal arithmetic (NumR): the Kahan compensation vanishes, value / variance / error formulas *)
Section Real.
  Local Open Scope R_scope.

  Definition Rsum (l : list R) : R := fold_right Rplus 0 l.
  Definition sq (x : R) : R := x * x.

  Lemma accumulate_R (s ss x : R) : accumulate NumR s ss 0 x = (s + x, ss + x * x, 0).
  Proof. unfold accumulate. cbn [sub add mul NumR]. change (T NumR) with R. (apply (f_equal2 pair); [apply (f_equal2 pair)|]; ring). Qed.

  Lemma acc3_R (xs : list R) : forall s ss : R,
    @acc3 NumR xs (s, ss, 0) = (s + Rsum xs, ss + Rsum (map sq xs), 0).
  Proof.
    induction xs as [|x xs IH]; intros s ss.
    - cbn. rewrite !Rplus_0_r. reflexivity.
    - change (@acc3 NumR (x :: xs) (s, ss, 0)) with (@acc3 NumR xs (accumulate NumR s ss 0 x)).
      rewrite accumulate_R, IH. cbn [Rsum map fold_right]. unfold sq at 2. change (T NumR) with R. (apply (f_equal2 pair); [apply (f_equal2 pair)|reflexivity]; unfold Rsum; ring).
  Qed.

  Lemma c02_kahan_exact_R (xs : list R) :
    @acc3 NumR xs (zero NumR, zero NumR, zero NumR) = (Rsum xs, Rsum (map sq xs), 0).
  Proof. cbn [zero NumR]. rewrite acc3_R. rewrite !Rplus_0_l. reflexivity. Qed.

  Lemma c02_value_R (r : mcres NumR) : value r = r_sum r / ofN NumR (r_calls r).
  Proof. unfold value, mc_value. rewrite N2Z.id. reflexivity. Qed.

  Lemma wrap64_small z : (0 <= z < 2 ^ 64)%Z -> wrap64 z = z.
  Proof. intros H. unfold wrap64. apply Z.mod_small. exact H. Qed.

  Lemma c02_variance_formula_R (r : mcres NumR) : (2 <= r_calls r < 2 ^ 64)%N ->
    let n := ofN NumR (r_calls r) in
    variance r = (r_sumsq r / n - (r_sum r / n) * (r_sum r / n)) / (n - 1).
  Proof.
    intros Hn. cbv zeta. unfold variance, mc_variance. rewrite N2Z.id.
    assert (H1 : wrap64 1 = 1%Z) by reflexivity. rewrite H1.
    assert (Hz : (2 <= Z.of_N (r_calls r) < 2 ^ 64)%Z).
    { split; [lia|]. change (2 ^ 64)%Z with (Z.of_N (2 ^ 64)). lia. }
    rewrite wrap64_small by lia. rewrite !ofN_R. rewrite Z2N.id by lia.
    rewrite minus_IZR. cbn [div sub mul NumR].
    assert (Hr : 2 <= IZR (Z.of_N (r_calls r))) by (apply IZR_le; lia).
    change (T NumR) with R. generalize dependent (IZR (Z.of_N (r_calls r))). intros n Hr. generalize (r_sum r) (r_sumsq r). intros a b. change (T NumR) with R in *. field. split; lra.
  Qed.

  Lemma c02_error_R (r : mcres NumR) : error r = sqrt (variance r).
  Proof. reflexivity. Qed.

  (* over the reals nothing is non-finite and a zero value contributes zero: the filtered sums are the
     plain sums over all calls *)
  Lemma Rsum_kept (vs : list (R * R)) :
    Rsum (map (@prod NumR) (filter (@keptb NumR) vs)) = Rsum (map (fun vw => fst vw * snd vw) vs) /\
    Rsum (map sq (map (@prod NumR) (filter (@keptb NumR) vs))) = Rsum (map (fun vw => sq (fst vw * snd vw)) vs).
  Proof.
    induction vs as [|[v w] vs [IH1 IH2]]; [split; reflexivity|].
    assert (Ek : @keptb NumR (v, w) = negb (Reqb v 0)).
    { unfold keptb, neqb. cbn. apply andb_true_r. }
    cbn [filter]. rewrite Ek. clear Ek.
    destruct (Reqb v 0) eqn:E; cbn [negb].
    - apply Reqb_true in E. subst v. cbn [map]. rewrite IH1, IH2. cbn [fst snd].
      unfold Rsum, sq. cbn [fold_right]. split; ring.
    - cbn [map]. unfold prod at 1 3. cbn [fst snd mul NumR].
      unfold Rsum in *. cbn [fold_right]. rewrite IH1, IH2. split; reflexivity.
  Qed.

  (** any main result satisfying [main_spec] over the reals (so: of any of the three iterations):
      sum = sum f*w, sumsq = sum (f*w)^2 over ALL calls, compensation 0 *)
  Lemma c02_estimator_R (f : integrand NumR) calls evs (m : mcres NumR) :
    main_spec f calls evs m ->
    r_sum m = Rsum (map (fun vw => fst vw * snd vw) (vals f evs)) /\
    r_sumsq m = Rsum (map (fun vw => sq (fst vw * snd vw)) (vals f evs)) /\
    c_comp (main_fold (vals f evs) cell0) = 0 /\
    value m = Rsum (map (fun vw => fst vw * snd vw) (vals f evs)) / ofN NumR calls.
  Proof.
    intros (Hm & H1 & _ & _ & _ & Hc). cbv zeta in H1. rewrite c02_kahan_exact_R in H1.
    destruct (Rsum_kept (vals f evs)) as [E1 E2]. rewrite E1, E2 in H1.
    injection H1 as Es Ess Ec. split; [exact Es|]. split; [exact Ess|]. split; [exact Ec|].
    rewrite c02_value_R, Hc, Es. reflexivity.
  Qed.

  Lemma c02_variance_example :
    variance (mk_mcres (K:=NumR) 2 2 2 4 10) = 1 /\ error (mk_mcres (K:=NumR) 2 2 2 4 10) = 1.
  Proof.
    assert (H : variance (mk_mcres (K:=NumR) 2 2 2 4 10) = 1).
    { rewrite c02_variance_formula_R by (cbn; lia). cbn. lra. }
    split; [exact H|]. rewrite c02_error_R, H. apply sqrt_1.
  Qed.
End Real.

(** an integrand without fills never makes PLAIN undefined: used for a NumR instance of [main_spec] *)
Lemma plain_nofill_total {K : Num} (strm : N -> K) ps (f : integrand K) d :
  (forall o, i_fills (f o) = []) ->
  forall calls g idx, exists r g' idx' evs, plain_iteration strm ps f d calls g idx = Ok (r, g', idx', evs).
Proof.
  intros Hf calls g idx. unfold plain_iteration.
  assert (H : exists s, iter_loop (plain_step strm ps f d) calls (mk_itst g idx (acc_init ps) [] []) = Ok s).
  { induction calls as [|n [s IH]] using N.peano_ind.
    - eexists. apply iter_loop_0.
    - rewrite iter_loop_succ, IH. cbn [bind]. unfold plain_step, finish_call. rewrite Hf. cbn [do_fills bind].
      destruct (invoke_main _ _ _) as [m v]. cbn [bind]. eexists. reflexivity. }
  destruct H as [s H]. rewrite H. cbn [bind]. do 4 eexists. reflexivity.
Qed.

Definition ex02_fR : integrand NumR := fun o => mk_iret (K:=NumR) 2%R [] false.
Lemma c02_example_R : exists r g' idx' evs,
  plain_iteration (K:=NumR) (fun _ => 0%R) [] ex02_fR 1 3 0 0 = Ok (r, g', idx', evs) /\
  main_spec ex02_fR 3 evs (p_main r).
Proof.
  destruct (plain_nofill_total (K:=NumR) (fun _ => 0%R) [] ex02_fR 1 (fun _ => eq_refl) 3 0 0)%N as (r & g' & idx' & evs & H).
  exists r, g', idx', evs. split; [exact H|]. eapply c02_plain_main; eauto.
Qed.

(** ** non-vacuity: concrete double-precision iterations (NaN, zero, finite and infinite values) *)
Definition ex02_strm (n : N) : B64 := div B64 (ofN B64 (N.modulo (n * 3) 8)) (ofN B64 8).
Definition ex02_ps : list (dparams B64) := [make_dparams1 2 (zero B64) (one B64) String.EmptyString].
Definition ex02_f : integrand B64 := fun o =>
  let x := nth 0 (o_point o) (zero B64) in
  let v := match N.modulo (o_idx o) 4 with
           | 0%N => div B64 (zero B64) (zero B64)         (* NaN *)
           | 1%N => zero B64
           | 2%N => add B64 x (one B64)
           | _ => div B64 (one B64) (zero B64)            (* +inf *)
           end in
  mk_iret v [Fill1 0 x v] false.
Definition ex02_mp : mcmap B64 :=
  mk_mcmap (fun _ _ us _ => us) (fun _ ch _ _ _ => (one B64, [one B64; ofN B64 (ch + 2)])).
Definition ex02_ws : list B64 := [@half B64; @half B64].

Definition ex02_plain_check : bool :=
  match plain_iteration ex02_strm ex02_ps ex02_f 2 7 0 0 with
  | Ok (r, g', idx', evs) =>
      N.eqb (r_calls (p_main r)) 7 && N.eqb (r_nz (p_main r)) 5 && N.eqb (r_fin (p_main r)) 2
      && Nat.eqb (length (call_obs evs)) 7
  | UB _ => false
  end.
Lemma ex02_plain_check_ok : ex02_plain_check = true.
Proof. vm_compute. reflexivity. Qed.

Definition ex02_vegas_check : bool :=
  match vegas_iteration ex02_strm ex02_ps ex02_f (uniform_pdf 2 2) 7 0 0 with
  | Ok (r, g', idx', evs) =>
      N.eqb (r_nz (p_main (v_plain r))) 5 && N.eqb (r_fin (p_main (v_plain r))) 2
      && forallb (fun c => forallb (fun b => N.ltb b 2) (fst c)) (vcalls ex02_f evs)
      && Nat.eqb (length (v_adj r)) 4
  | UB _ => false
  end.
Lemma ex02_vegas_check_ok : ex02_vegas_check = true.
Proof. vm_compute. reflexivity. Qed.

Definition ex02_mc_check : bool :=
  match mc_iteration ex02_strm ex02_ps ex02_f ex02_mp 2 ex02_ws 7 0 0 with
  | Ok (r, g', idx', evs) =>
      N.eqb (r_nz (p_main (m_plain r))) 5 && N.eqb (r_fin (p_main (m_plain r))) 2
      && Nat.eqb (length (m_adj r)) 2
  | UB _ => false
  end.
Lemma ex02_mc_check_ok : ex02_mc_check = true.
Proof. vm_compute. reflexivity. Qed.

Lemma c02_example_plain : exists r g' idx' evs,
  plain_iteration ex02_strm ex02_ps ex02_f 2 7 0 0 = Ok (r, g', idx', evs) /\
  r_nz (p_main r) = 5%N /\ r_fin (p_main r) = 2%N.
Proof.
  pose proof ex02_plain_check_ok as H. unfold ex02_plain_check in H.
  destruct (plain_iteration ex02_strm ex02_ps ex02_f 2 7 0 0) as [[[[r g'] idx'] evs]|]; [|discriminate].
  exists r, g', idx', evs. split; [reflexivity|].
  apply andb_prop in H as [H _]. apply andb_prop in H as [H H3]. apply andb_prop in H as [_ H2].
  apply N.eqb_eq in H2, H3. auto.
Qed.

Lemma c02_example_vegas : exists r g' idx' evs,
  vegas_iteration ex02_strm ex02_ps ex02_f (uniform_pdf 2 2) 7 0 0 = Ok (r, g', idx', evs) /\
  Forall (fun c => Forall (fun b => (b < pdf_bins (uniform_pdf (K:=B64) 2 2))%N) (fst c)) (vcalls ex02_f evs) /\
  r_nz (p_main (v_plain r)) = 5%N /\ r_fin (p_main (v_plain r)) = 2%N.
Proof.
  pose proof ex02_vegas_check_ok as H. unfold ex02_vegas_check in H.
  destruct (vegas_iteration ex02_strm ex02_ps ex02_f (uniform_pdf 2 2) 7 0 0) as [[[[r g'] idx'] evs]|]; [|discriminate].
  exists r, g', idx', evs. split; [reflexivity|].
  apply andb_prop in H as [H _]. apply andb_prop in H as [H H3]. apply andb_prop in H as [H1 H2].
  apply N.eqb_eq in H1, H2. split; [|auto].
  apply Forall_forall. intros c Hc. apply Forall_forall. intros b Hb.
  rewrite forallb_forall in H3. specialize (H3 c Hc). rewrite forallb_forall in H3. specialize (H3 b Hb).
  apply N.ltb_lt in H3. exact H3.
Qed.

Lemma c02_example_mc : exists r g' idx' evs,
  mc_iteration ex02_strm ex02_ps ex02_f ex02_mp 2 ex02_ws 7 0 0 = Ok (r, g', idx', evs) /\
  r_nz (p_main (m_plain r)) = 5%N /\ r_fin (p_main (m_plain r)) = 2%N.
Proof.
  pose proof ex02_mc_check_ok as H. unfold ex02_mc_check in H.
  destruct (mc_iteration ex02_strm ex02_ps ex02_f ex02_mp 2 ex02_ws 7 0 0) as [[[[r g'] idx'] evs]|]; [|discriminate].
  exists r, g', idx', evs. split; [reflexivity|].
  apply andb_prop in H as [H _]. apply andb_prop in H as [H1 H2].
  apply N.eqb_eq in H1, H2. auto.
Qed.
