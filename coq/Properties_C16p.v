(** C16, partition supplement - "without gap or overlap" as a statement about the positions of the random
    number stream: under the split the code computes (translated [discard_before], [sub_calls_*],
    [discard_after], 64-bit wrap explicit) every position 0 <= i < total is owned by exactly one rank,
    no rank owns a position outside the stream, the blocks are ordered like the ranks, and what a rank
    skips after its share is exactly what the higher ranks own.  Statements only (proofs in
    Lemmas_C16p.v); same range hypotheses as Properties_C16.v.

    Tie: the definitions are regenerated from /repo by the translator on every run; the harness compares
    the per-rank counts and skips of the real helpers with them (exhaustive small, sampled to 2^40). *)
From Coq Require Import ZArith List.
From HepMC Require Import Num Translated Lemmas_C16 Lemmas_C16p.
Local Open Scope Z_scope.

(* no gap: every stream position belongs to the block of some rank *)
Theorem C16p_every_position_has_an_owner : forall total world i,
  0 <= total < 2 ^ 64 -> 1 <= world < 2 ^ 31 -> 0 <= i < total ->
  exists rank, 0 <= rank < world /\ owns total world rank i.
Proof. exact owner_exists. Qed.
Print Assumptions C16p_every_position_has_an_owner.

(* no overlap: two ranks that own the same position are the same rank *)
Theorem C16p_owner_is_unique : forall total world i r r',
  in_range total r world -> in_range total r' world ->
  owns total world r i -> owns total world r' i -> r = r'.
Proof. exact owner_unique. Qed.
Print Assumptions C16p_owner_is_unique.

(* rank order: the block of a lower rank ends before the block of a higher rank starts *)
Theorem C16p_blocks_in_rank_order : forall total world r r',
  in_range total r world -> in_range total r' world -> r < r' ->
  discard_before total r world + sub_calls_plain total r world <= discard_before total r' world.
Proof. exact blocks_ordered. Qed.
Print Assumptions C16p_blocks_in_rank_order.

(* no rank samples beyond the serial stream *)
Theorem C16p_owned_positions_are_in_the_stream : forall total world rank i,
  in_range total rank world -> owns total world rank i -> 0 <= i < total.
Proof. exact owned_in_stream. Qed.
Print Assumptions C16p_owned_positions_are_in_the_stream.

(* the skip after a rank's share covers exactly the blocks of the higher ranks *)
Theorem C16p_skip_after_is_the_rest : forall total world rank, in_range total rank world ->
  discard_after total (sub_calls_plain total rank world) rank world = total - before_spec total (rank + 1) world.
Proof. exact after_is_rest. Qed.
Print Assumptions C16p_skip_after_is_the_rest.

(* non-vacuity: with 10 calls on 4 ranks, rank 2 owns positions 6 and 7 and neither 5 nor 8 *)
Example C16p_example : owns 10 4 2 6 /\ owns 10 4 2 7 /\ ~ owns 10 4 2 8 /\ ~ owns 10 4 2 5.
Proof. exact c16p_example. Qed.
