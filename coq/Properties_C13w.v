(** C13, counter widths — the call counters the model keeps in unbounded N are unsigned 64-bit integers in
    the code, so no count a run can reach (below 2^64 evaluations) wraps; the table [counter_widths] is
    regenerated from the declarations in /repo's headers by the translator on every run.

    Tie: translator/cxx2gallina.py (clang AST: FieldDecl / VarDecl / ParmVarDecl types).  When this file
    no longer checks, the search runs one iteration with more evaluations than the narrowed counter holds. *)
From Coq Require Import ZArith List String.
From HepMC Require Import Translated Lemmas_Widths.
Import ListNotations.
Local Open Scope Z_scope.

Theorem C13w_counters_do_not_wrap : forall (name : string) (w n : Z),
  In (name, w) counter_widths -> 0 <= n < 2 ^ 64 -> n mod 2 ^ w = n.
Proof. exact counters_do_not_wrap. Qed.
Print Assumptions C13w_counters_do_not_wrap.

Theorem C13w_narrower_counter_wraps : forall w : Z, 0 <= w < 64 -> exists n, 0 <= n < 2 ^ 64 /\ n mod 2 ^ w <> n.
Proof. exact narrower_counter_wraps. Qed.
Print Assumptions C13w_narrower_counter_wraps.

Example C13w_counter_members_present :
  In ("mc_result::calls_"%string, 64) counter_widths /\ In ("mc_result::non_zero_calls_"%string, 64) counter_widths /\
  In ("mc_result::finite_calls_"%string, 64) counter_widths /\ In ("accumulator::non_zero_calls_"%string, 64) counter_widths /\
  In ("accumulator::finite_calls_"%string, 64) counter_widths.
Proof. exact counter_members_present. Qed.
