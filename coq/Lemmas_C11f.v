(** Lemmas for C11f: the floating-point placement clause of property C11 ("a value is added to exactly the
    bin whose half-open interval contains the coordinate; a coordinate within one rounding error of an edge
    may go to either adjacent bin") for the model's [fill1d] instantiated with Flocq's IEEE-754 binary
    formats [NumB].  All proofs; the statements are repeated in Properties_C11f.v. *)
From Coq Require Import ZArith NArith List Reals Lra Lia Bool Psatz.
From Flocq Require Import Core BinarySingleNaN Plus_error Relative.
From HepMC Require Import Num NumR NumB Translated Result Accum Lemmas_C09 Lemmas_C07f Lemmas_C07g Lemmas_C11.
Import ListNotations.
Local Open Scope R_scope.

(* ------------------------------------------------------------------------------------------- *)
(** * one axis of the projector, every [Num] *)
Section Axis.
  Context {K : Num}.

  (** the computation [fill1d] / [fill2d] perform on one axis: [Ok None] = outside the range (nothing is
      changed), [Ok (Some k)] = bin k, [UB 13] = the float -> size_t conversion is undefined *)
  Definition axis_bin (xmin bs : K) (bx : N) (x : K) : res (option N) :=
    let sx := sub K x xmin in
    if ltb K sx (zero K) then Ok None else
    let px := div K sx bs in
    if negb (ltb K px (ofN K bx)) then Ok None else
    do k <- to_index 13 px; Ok (Some k).

  Lemma c11f_fill1d_axis (ps : list (dparams K)) ds idx (x v : K) p :
    nthN ps idx = Some p -> isfinite K v = true ->
    fill1d ps ds idx x v =
    do t <- axis_bin (d_xmin p) (d_bsx p) (d_bx p) x;
    match t with None => Ok ds | Some k => upd_bin ds idx k v end.
  Proof.
    intros Hp Hv. unfold fill1d, axis_bin, getN. rewrite Hp, Hv. cbn [negb bind].
    destruct (ltb K (sub K x (d_xmin p)) (zero K)); [reflexivity|].
    destruct (ltb K (div K (sub K x (d_xmin p)) (d_bsx p)) (ofN K (d_bx p))); cbn [negb bind]; [|reflexivity].
    destruct (to_index 13 (div K (sub K x (d_xmin p)) (d_bsx p))); reflexivity.
  Qed.
End Axis.

(* ------------------------------------------------------------------------------------------- *)
(** * rounding facts over the reals *)
Section Float.
  Variables prec emax : Z.
  Context (Hprec : FLX.Prec_gt_0 prec) (Hmax : Prec_lt_emax prec emax).
  Hypothesis Hprec2 : (2 <= prec)%Z.
  Notation KB := (NumB prec emax Hprec Hmax).
  Notation F := (binary_float prec emax).
  Notation fexp := (SpecFloat.fexp prec emax).
  Notation emin := (SpecFloat.emin prec emax).
  Notation rnd := (round radix2 fexp (round_mode mode_NE)).
  Notation format := (generic_format radix2 fexp).
  Notation pred := (pred radix2 fexp).
  Notation u := (bpow radix2 (- prec)).

  Local Instance vexp11f : Valid_exp fexp := fexp_correct prec emax Hprec.

  Lemma u_pos : 0 < u.
  Proof. apply bpow_gt_0. Qed.
  Lemma u_le_quarter : u <= / 4.
  Proof. change (/ 4) with (bpow radix2 (-2)). apply bpow_le. lia. Qed.
  Lemma u_ro_u : u_ro radix2 prec = u.
  Proof.
    unfold u_ro. replace (- prec + 1)%Z with (1 + - prec)%Z by lia. rewrite bpow_plus. cbn. lra.
  Qed.

  Lemma rle x y : x <= y -> rnd x <= rnd y.
  Proof. apply (rndle prec emax Hprec). Qed.
  Lemma rid x : format x -> rnd x = x.
  Proof. apply rnd_id. Qed.
  Lemma fmtZ z : (Z.abs z < 2 ^ prec)%Z -> format (IZR z).
  Proof. apply (format_IZR prec emax Hmax Hprec2). Qed.

  (** relative error of a rounded difference of two floats: no underflow case *)
  Lemma sub_rel (a b : R) : format a -> format b ->
    exists eps, Rabs eps <= u / (1 + u) /\ rnd (a - b) = (a - b) * (1 + eps).
  Proof.
    intros Fa Fb.
    destruct (FLT_plus_error_N_ex radix2 emin prec (fun x => negb (Z.even x)) a (- b) Fa
                (generic_format_opp radix2 fexp b Fb)) as (eps & B & E).
    rewrite u_ro_u in B. exists eps. split; [exact B|exact E].
  Qed.
  Lemma sub_rel_round (a b : R) : format a -> format b ->
    exists eps, Rabs eps <= u /\ a - b = rnd (a - b) * (1 + eps).
  Proof.
    intros Fa Fb.
    destruct (FLT_plus_error_N_round_ex radix2 emin prec (fun x => negb (Z.even x)) a (- b) Fa
                (generic_format_opp radix2 fexp b Fb)) as (eps & B & E).
    rewrite u_ro_u in B. exists eps. split; [exact B|exact E].
  Qed.

  (** the exact difference is within a factor 1 -+ u of its non-negative rounded value *)
  Lemma diff_of_rounded (a b : R) : format a -> format b -> 0 <= rnd (a - b) ->
    rnd (a - b) * (1 - u) <= a - b <= rnd (a - b) * (1 + u).
  Proof.
    intros Fa Fb H0. destruct (sub_rel_round a b Fa Fb) as (eps & B & E).
    apply Rabs_le_inv in B. rewrite E at 2 3. nra.
  Qed.

  (** and conversely for a non-negative exact difference *)
  Lemma rounded_of_diff (a b : R) : format a -> format b -> 0 <= a - b ->
    0 <= rnd (a - b) /\ a - b <= rnd (a - b) * (1 + u) /\ rnd (a - b) <= (a - b) * (1 + u).
  Proof.
    intros Fa Fb H0. destruct (sub_rel a b Fa Fb) as (eps & B & E).
    pose proof u_pos as Up. pose proof u_le_quarter as Uq.
    apply Rabs_le_inv in B. destruct B as (B1 & B2).
    assert (W : u / (1 + u) * (1 + u) = u) by (field; lra).
    assert (W1 : u / (1 + u) <= u).
    { apply Rmult_le_reg_r with (1 + u); [lra|]. rewrite W. nra. }
    assert (X : 1 <= (1 + eps) * (1 + u)).
    { assert (- u <= eps * (1 + u)). { rewrite <- W. nra. } nra. }
    rewrite E. split; [nra|]. split; nra.
  Qed.

  (** comparing a rounded value with a representable integer *)
  Lemma rnd_lt_int (n : Z) (q : R) : (Z.abs n < 2 ^ prec)%Z -> rnd q < IZR n -> q < IZR n.
  Proof.
    intros Hn H. destruct (Rlt_or_le q (IZR n)) as [L|L]; [exact L|exfalso].
    apply rle in L. rewrite (rid _ (fmtZ n Hn)) in L. lra.
  Qed.
  Lemma rnd_ge_int (n : Z) (q : R) : (Z.abs n < 2 ^ prec)%Z -> IZR n <= q -> IZR n <= rnd q.
  Proof. intros Hn H. apply rle in H. rewrite (rid _ (fmtZ n Hn)) in H. exact H. Qed.

  (* q at most n (1 - u) rounds strictly below n; hence a rounded value >= n comes from q > n (1 - u) *)
  Lemma rnd_lt_int_mid (n : Z) (q : R) : (1 <= n < 2 ^ prec)%Z -> q <= IZR n * (1 - u) -> rnd q < IZR n.
  Proof.
    intros Hn H. assert (N1 : 1 <= IZR n) by (apply IZR_le; lia).
    pose proof (pred_gap prec emax Hmax Hprec2 (IZR n) N1) as G.
    assert (Fn : format (IZR n)) by (apply fmtZ; lia).
    apply Rle_lt_trans with (pred (IZR n)); [|apply pred_lt_id; lra].
    cbn [round_mode]. apply round_N_le_midp.
    - exact vexp11f.
    - apply generic_format_pred; [exact vexp11f|exact Fn].
    - rewrite succ_pred by (try exact vexp11f; exact Fn). nra.
  Qed.
  Lemma rnd_ge_int_mid (n : Z) (q : R) : (1 <= n < 2 ^ prec)%Z -> IZR n <= rnd q -> IZR n * (1 - u) < q.
  Proof.
    intros Hn H. destruct (Rlt_or_le (IZR n * (1 - u)) q) as [L|L]; [exact L|exfalso].
    pose proof (rnd_lt_int_mid n q Hn L). lra.
  Qed.

  (** ** the three facts over the reals.  D = x - xmin (exact), sx = fl(D), S = bin size,
      position computed = fl(sx / S), exact position P = D / S *)
  Lemma lower_R (X M S : R) (n : Z) : format X -> format M -> 0 < S -> (0 <= n < 2 ^ prec)%Z ->
    0 <= rnd (X - M) -> IZR n <= rnd (rnd (X - M) / S) ->
    0 <= X - M /\ IZR n * (1 - u) * (1 - u) * S <= X - M.
  Proof.
    intros FX FM HS Hn H0 Hq. pose proof u_pos as Up. pose proof u_le_quarter as Uq.
    destruct (diff_of_rounded X M FX FM H0) as (D1 & D2).
    set (sx := rnd (X - M)) in *. assert (D0 : 0 <= X - M) by nra. split; [exact D0|].
    destruct (Z.eq_dec n 0) as [->|NZ]; [lra|].
    assert (N1 : 1 <= IZR n) by (apply IZR_le; lia).
    pose proof (rnd_ge_int_mid n (sx / S) ltac:(lia) Hq) as Q.
    assert (Esx : sx = sx / S * S) by (field; lra).
    assert (Q' : IZR n * (1 - u) * S < sx). { rewrite Esx. apply Rmult_lt_compat_r; assumption. }
    apply Rle_trans with (sx * (1 - u)); [|exact D1].
    replace (IZR n * (1 - u) * (1 - u) * S) with (IZR n * (1 - u) * S * (1 - u)) by ring.
    apply Rmult_le_compat_r; lra.
  Qed.

  Lemma upper_R (X M S : R) (n : Z) : format X -> format M -> 0 < S -> (0 <= n < 2 ^ prec)%Z ->
    0 <= rnd (X - M) -> rnd (rnd (X - M) / S) < IZR n ->
    X - M < IZR n * (1 + u) * S.
  Proof.
    intros FX FM HS Hn H0 Hq. pose proof u_pos as Up.
    destruct (diff_of_rounded X M FX FM H0) as (D1 & D2).
    set (sx := rnd (X - M)) in *.
    pose proof (rnd_lt_int n (sx / S) ltac:(lia) Hq) as Q.
    assert (Esx : sx = sx / S * S) by (field; lra).
    assert (Q' : sx < IZR n * S). { rewrite Esx. apply Rmult_lt_compat_r; assumption. }
    apply Rle_lt_trans with (sx * (1 + u)); [exact D2|].
    replace (IZR n * (1 + u) * S) with (IZR n * S * (1 + u)) by ring.
    apply Rmult_lt_compat_r; lra.
  Qed.

  Lemma interior_R (X M S : R) (k : Z) : format X -> format M -> 0 < S -> (0 <= k)%Z -> (k + 1 < 2 ^ prec)%Z ->
    IZR k * (1 + u) * S <= X - M <= (IZR k + 1) * (1 - 2 * u) * S ->
    0 <= rnd (X - M) /\ IZR k <= rnd (rnd (X - M) / S) < IZR k + 1.
  Proof.
    intros FX FM HS K0 K1 (HL & HU). pose proof u_pos as Up. pose proof u_le_quarter as Uq.
    assert (IK : 0 <= IZR k) by (apply IZR_le; lia).
    assert (D0 : 0 <= X - M). { apply Rle_trans with (IZR k * (1 + u) * S); [|exact HL]. apply Rmult_le_pos; [nra|lra]. }
    destruct (rounded_of_diff X M FX FM D0) as (S0 & S1 & S2).
    set (sx := rnd (X - M)) in *. split; [exact S0|].
    assert (Esx : sx = sx / S * S) by (field; lra).
    split.
    - apply rnd_ge_int; [lia|].
      (* k S (1 + u) <= D <= sx (1 + u) *)
      assert (A : IZR k * S <= sx).
      { apply Rmult_le_reg_r with (1 + u); [lra|]. apply Rle_trans with (X - M); [|exact S1].
        replace (IZR k * S * (1 + u)) with (IZR k * (1 + u) * S) by ring. exact HL. }
      apply Rmult_le_reg_r with S; [exact HS|]. rewrite <- Esx. exact A.
    - rewrite <- plus_IZR. apply rnd_lt_int_mid; [lia|]. rewrite plus_IZR.
      (* sx <= D (1 + u) <= (k+1)(1 - 2u)(1 + u) S <= (k+1)(1 - u) S *)
      assert (A : sx <= (IZR k + 1) * (1 - u) * S).
      { apply Rle_trans with ((X - M) * (1 + u)); [exact S2|].
        apply Rle_trans with ((IZR k + 1) * (1 - 2 * u) * S * (1 + u)); [apply Rmult_le_compat_r; lra|].
        replace ((IZR k + 1) * (1 - 2 * u) * S * (1 + u)) with ((IZR k + 1) * S * ((1 - 2 * u) * (1 + u))) by ring.
        replace ((IZR k + 1) * (1 - u) * S) with ((IZR k + 1) * S * (1 - u)) by ring.
        apply Rmult_le_compat_l; [apply Rmult_le_pos; lra|nra]. }
      apply Rmult_le_reg_r with S; [exact HS|]. rewrite <- Esx. exact A.
  Qed.

  Lemma negative_R (X M : R) : rnd (X - M) < 0 -> X - M < 0.
  Proof.
    intros H. destruct (Rlt_or_le (X - M) 0) as [L|L]; [exact L|exfalso].
    apply rle in L. rewrite (rnd_0 prec emax) in L. lra.
  Qed.

  (** ** bridge lemmas *)
  Lemma Bdiv_fin_R (x y : F) : B2R y <> 0 -> is_finite (Bdiv mode_NE x y) = true ->
    is_finite x = true /\ B2R (Bdiv mode_NE x y) = rnd (B2R x / B2R y).
  Proof.
    intros Hy Fz. pose proof (Bdiv_correct prec emax Hprec Hmax mode_NE x y Hy) as C.
    destruct (Rlt_bool _ _).
    - destruct C as (C1 & C2 & _). rewrite Fz in C2. split; [symmetry; exact C2|exact C1].
    - apply (overflow_not_finite prec emax) in C. congruence.
  Qed.

  Lemma Bdiv_small_R (x y : F) : B2R y <> 0 -> is_finite x = true ->
    Rabs (rnd (B2R x / B2R y)) < bpow radix2 emax ->
    is_finite (Bdiv mode_NE x y) = true /\ B2R (Bdiv mode_NE x y) = rnd (B2R x / B2R y).
  Proof.
    intros Hy Fx H. pose proof (Bdiv_correct prec emax Hprec Hmax mode_NE x y Hy) as C.
    rewrite Rlt_bool_true in C by exact H. destruct C as (C1 & C2 & _). rewrite Fx in C2. split; assumption.
  Qed.

  (* a defined float -> size_t conversion: the argument is finite and the result is its truncation *)
  Lemma Btrunc_N_Some (x : F) (k : N) : Btrunc_N prec emax x = Some k ->
    is_finite x = true /\ Z.of_N k = Ztrunc (B2R x).
  Proof.
    intros H.
    assert (Fx : is_finite x = true) by (destruct x; try reflexivity; discriminate H).
    split; [exact Fx|].
    assert (E : Btrunc x = Ztrunc (B2R x)).
    { apply eq_IZR. rewrite Btrunc_correct by exact Hmax. rewrite round_FIX_IZR. reflexivity. }
    assert (U : Btrunc_N prec emax x =
                let z := Btrunc x in
                if (z <? 0)%Z then None else if (z <? 2 ^ 64)%Z then Some (Z.to_N z) else None).
    { destruct x; try discriminate Fx; reflexivity. }
    rewrite U in H. cbv zeta in H. rewrite E in H.
    destruct (Z.ltb_spec (Ztrunc (B2R x)) 0) as [A|A]; [discriminate H|].
    destruct (Z.ltb_spec (Ztrunc (B2R x)) (2 ^ 64)) as [B|B]; [|discriminate H].
    injection H as <-. lia.
  Qed.

  Lemma ofN_exact (n : N) : (Z.of_N n < 2 ^ prec)%Z ->
    is_finite (ofN KB n) = true /\ B2R (ofN KB n) = IZR (Z.of_N n).
  Proof. apply (ofN_B prec emax Hprec Hmax Hprec2). Qed.

  (** ** the hypotheses on one axis, in the model's own operations *)
  Definition axis_ok (xmin bs : KB) (bx : N) : Prop :=
    isfinite KB xmin = true /\ isfinite KB bs = true /\ ltb KB (zero KB) bs = true /\
    (Z.of_N bx < 2 ^ prec)%Z.

  (** the exact (real) position of a coordinate on the axis, in units of the bin size *)
  Definition axis_pos (xmin bs x : F) : R := (B2R x - B2R xmin) / B2R bs.

  Lemma axis_ok_R (xmin bs : KB) bx : axis_ok xmin bs bx ->
    is_finite xmin = true /\ is_finite bs = true /\ 0 < B2R bs /\ (Z.of_N bx < 2 ^ prec)%Z.
  Proof.
    intros (A & B & C & D). split; [exact A|]. split; [exact B|]. split; [|exact D].
    apply (Bltb_R1 prec emax (B754_zero false) bs eq_refl B C).
  Qed.

  Lemma pos_le a D S : 0 < S -> a * S <= D -> a <= D / S.
  Proof. intros HS H. apply Rmult_le_reg_r with S; [exact HS|]. replace (D / S * S) with D by (field; lra). exact H. Qed.
  Lemma pos_lt a D S : 0 < S -> D < a * S -> D / S < a.
  Proof. intros HS H. apply Rmult_lt_reg_r with S; [exact HS|]. replace (D / S * S) with D by (field; lra). exact H. Qed.
  Lemma pos_le_inv a D S : 0 < S -> a <= D / S -> a * S <= D.
  Proof. intros HS H. replace D with (D / S * S) by (field; lra). apply Rmult_le_compat_r; lra. Qed.
  Lemma pos_ge_inv a D S : 0 < S -> D / S <= a -> D <= a * S.
  Proof. intros HS H. replace D with (D / S * S) by (field; lra). apply Rmult_le_compat_r; lra. Qed.

  (** ** (1) forward: the bin that is filled contains the coordinate up to two relative rounding errors *)
  Lemma c11f_axis_bin_bounds (xmin bs x : KB) (bx k : N) :
    axis_ok xmin bs bx -> isfinite KB x = true ->
    axis_bin xmin bs bx x = Ok (Some k) ->
    (k < bx)%N /\ isfinite KB (sub KB x xmin) = true /\ isfinite KB (div KB (sub KB x xmin) bs) = true /\
    0 <= axis_pos xmin bs x /\
    IZR (Z.of_N k) * (1 - u) * (1 - u) <= axis_pos xmin bs x < (IZR (Z.of_N k) + 1) * (1 + u).
  Proof.
    intros Hax Fx H. apply axis_ok_R in Hax. destruct Hax as (Fm & Fb & HS & Hbx).
    unfold axis_bin in H. cbv zeta in H.
    set (sx := sub KB x xmin) in *. set (px := div KB sx bs) in *.
    destruct (ltb KB sx (zero KB)) eqn:E1; [discriminate H|].
    destruct (ltb KB px (ofN KB bx)) eqn:E2; cbn [negb] in H; [|discriminate H].
    unfold to_index in H. destruct (trunc KB px) as [k'|] eqn:E3; cbn [bind] in H; [|discriminate H].
    injection H as ->.
    destruct (Btrunc_N_Some px k E3) as (Fp & Ek).
    destruct (Bdiv_fin_R sx bs ltac:(lra) Fp) as (Fs & Rp). change (Bdiv mode_NE sx bs) with px in Rp.
    pose proof (Bminus_fin_R prec emax Hprec Hmax x xmin Fs) as Rs. change (Bminus mode_NE x xmin) with sx in Rs.
    destruct (ofN_exact bx Hbx) as (Fn & Rn).
    change (Bltb sx (B754_zero false) = false) in E1.
    rewrite (Bltb_R prec emax) in E1 by (try exact Fs; reflexivity). apply Rltb_false in E1. cbn [B2R] in E1.
    pose proof (Bltb_R1 prec emax px (ofN KB bx) Fp Fn E2) as L2. rewrite Rn in L2.
    assert (P0 : 0 <= B2R px).
    { rewrite Rp, <- (rnd_0 prec emax). apply rle. apply Rmult_le_pos; [exact E1|left; apply Rinv_0_lt_compat; exact HS]. }
    rewrite Ztrunc_floor in Ek by exact P0.
    pose proof (Zfloor_lb (B2R px)) as Lb. pose proof (Zfloor_ub (B2R px)) as Ub. rewrite <- Ek in Lb, Ub.
    assert (Hk : (k < bx)%N). { assert (IZR (Z.of_N k) < IZR (Z.of_N bx)) by lra. apply lt_IZR in H. lia. }
    split; [exact Hk|]. split; [exact Fs|]. split; [exact Fp|].
    rewrite Rp, Rs in Lb, Ub. rewrite Rs in E1.
    destruct (lower_R (B2R x) (B2R xmin) (B2R bs) (Z.of_N k) (fmtB prec emax x) (fmtB prec emax xmin) HS
                ltac:(lia) E1 Lb) as (D0 & DL).
    pose proof (upper_R (B2R x) (B2R xmin) (B2R bs) (Z.of_N k + 1) (fmtB prec emax x) (fmtB prec emax xmin) HS
                  ltac:(lia) E1 ltac:(rewrite plus_IZR; exact Ub)) as DU.
    rewrite plus_IZR in DU. unfold axis_pos.
    split; [apply pos_le; [exact HS|lra]|]. split; [apply pos_le|apply pos_lt]; assumption.
  Qed.

  (** in plain words, for at most 2^(prec-1) bins: the exact position lies in the selected bin or in one of
      its two neighbours *)
  Lemma c11f_axis_bin_adjacent (xmin bs x : KB) (bx k : N) :
    axis_ok xmin bs bx -> (Z.of_N bx <= 2 ^ (prec - 1))%Z -> isfinite KB x = true ->
    axis_bin xmin bs bx x = Ok (Some k) ->
    IZR (Z.of_N k) - 1 < axis_pos xmin bs x < IZR (Z.of_N k) + 2.
  Proof.
    intros Hax Hb Fx H.
    destruct (c11f_axis_bin_bounds xmin bs x bx k Hax Fx H) as (Hk & _ & _ & P0 & PL & PU).
    pose proof u_pos as Up. pose proof u_le_quarter as Uq.
    assert (IK : 0 <= IZR (Z.of_N k)) by (apply IZR_le; lia).
    assert (KU : (IZR (Z.of_N k) + 1) * u <= / 2).
    { rewrite <- plus_IZR. apply Rle_trans with (IZR (2 ^ (prec - 1)) * u).
      - apply Rmult_le_compat_r; [lra|]. apply IZR_le. lia.
      - change 2%Z with (radix_val radix2). rewrite (IZR_Zpower radix2 (prec - 1)) by lia.
        rewrite <- bpow_plus. replace (prec - 1 + - prec)%Z with (-1)%Z by lia. cbn. lra. }
    split; nra.
  Qed.

  (** ** (2) converse: a coordinate away from the edges by the rounding error goes to its bin *)
  Lemma c11f_axis_bin_interior (xmin bs x : KB) (bx k : N) :
    axis_ok xmin bs bx -> (bx <= two64)%N -> isfinite KB x = true ->
    isfinite KB (sub KB x xmin) = true -> (k < bx)%N ->
    IZR (Z.of_N k) * (1 + u) <= axis_pos xmin bs x <= (IZR (Z.of_N k) + 1) * (1 - 2 * u) ->
    axis_bin xmin bs bx x = Ok (Some k).
  Proof.
    intros Hax H64 Fx Fs Hk (PL & PU). apply axis_ok_R in Hax. destruct Hax as (Fm & Fb & HS & Hbx).
    unfold axis_pos in PL, PU. apply pos_le_inv in PL; [|exact HS]. apply pos_ge_inv in PU; [|exact HS].
    destruct (interior_R (B2R x) (B2R xmin) (B2R bs) (Z.of_N k) (fmtB prec emax x) (fmtB prec emax xmin) HS
                ltac:(lia) ltac:(lia) (conj PL PU)) as (S0 & Q0 & Q1).
    unfold axis_bin. cbv zeta. set (sx := sub KB x xmin) in *. set (px := div KB sx bs).
    change (is_finite sx = true) in Fs.
    pose proof (Bminus_fin_R prec emax Hprec Hmax x xmin Fs) as Rs. change (Bminus mode_NE x xmin) with sx in Rs. rewrite <- Rs in S0, Q0, Q1.
    destruct (ofN_exact bx Hbx) as (Fn & Rn).
    assert (IK : 0 <= IZR (Z.of_N k)) by (apply IZR_le; lia).
    assert (KB1 : IZR (Z.of_N k) + 1 <= IZR (Z.of_N bx)). { rewrite <- plus_IZR. apply IZR_le. lia. }
    destruct (Bdiv_small_R sx bs ltac:(lra) Fs) as (Fp & Rp).
    { rewrite Rabs_pos_eq by lra.
      pose proof (IZR_lt_bpow_prec prec Hprec2 (Z.of_N bx) ltac:(lia)) as X. rewrite Rabs_pos_eq in X by lra.
      pose proof (bpow_prec_lt_emax prec emax Hmax). lra. }
    change (Bdiv mode_NE sx bs) with px in Fp, Rp. rewrite <- Rp in Q0, Q1.
    assert (G1 : ltb KB sx (zero KB) = false).
    { change (Bltb sx (B754_zero false) = false). rewrite (Bltb_R prec emax) by (try exact Fs; reflexivity).
      apply Rltb_false. cbn [B2R]. exact S0. }
    assert (G2 : ltb KB px (ofN KB bx) = true).
    { apply (Bltb_R1' prec emax); [exact Fp|exact Fn|]. rewrite Rn. lra. }
    rewrite G1, G2. cbn [negb]. unfold to_index.
    destruct (Btrunc_N_floor prec emax Hmax px (Z.of_N bx) Fp ltac:(lra)) as (T & _).
    { unfold two64 in H64. assert (X : (Z.of_N bx <= Z.of_N 18446744073709551616)%Z) by lia. exact X. }
    change (trunc KB px) with (Btrunc_N prec emax px). rewrite T. cbn [bind].
    assert (Ef : Zfloor (B2R px) = Z.of_N k). { apply Zfloor_imp. rewrite plus_IZR. lra. }
    rewrite Ef, N2Z.id. reflexivity.
  Qed.

  (** ** (3) a rejected coordinate is left of the range or right of it up to the rounding error *)
  Lemma c11f_axis_bin_rejected (xmin bs x : KB) (bx : N) :
    axis_ok xmin bs bx -> isfinite KB x = true -> isfinite KB (sub KB x xmin) = true ->
    axis_bin xmin bs bx x = Ok None ->
    axis_pos xmin bs x < 0 \/ IZR (Z.of_N bx) * (1 - u) * (1 - u) <= axis_pos xmin bs x.
  Proof.
    intros Hax Fx Fs H. apply axis_ok_R in Hax. destruct Hax as (Fm & Fb & HS & Hbx).
    unfold axis_bin in H. cbv zeta in H.
    set (sx := sub KB x xmin) in *. set (px := div KB sx bs) in *.
    change (is_finite sx = true) in Fs.
    pose proof (Bminus_fin_R prec emax Hprec Hmax x xmin Fs) as Rs. change (Bminus mode_NE x xmin) with sx in Rs.
    destruct (ltb KB sx (zero KB)) eqn:E1.
    - left. pose proof (Bltb_R1 prec emax sx (B754_zero false) Fs eq_refl E1) as L. cbn [B2R] in L.
      rewrite Rs in L. apply negative_R in L. unfold axis_pos. apply pos_lt; [exact HS|lra].
    - right. change (Bltb sx (B754_zero false) = false) in E1.
      rewrite (Bltb_R prec emax) in E1 by (try exact Fs; reflexivity). apply Rltb_false in E1. cbn [B2R] in E1.
      destruct (ltb KB px (ofN KB bx)) eqn:E2; cbn [negb] in H.
      { unfold to_index in H. destruct (trunc KB px); discriminate H. }
      destruct (ofN_exact bx Hbx) as (Fn & Rn).
      assert (Q0 : 0 <= rnd (B2R sx / B2R bs)).
      { rewrite <- (rnd_0 prec emax). apply rle. apply Rmult_le_pos; [exact E1|left; apply Rinv_0_lt_compat; exact HS]. }
      assert (Q : IZR (Z.of_N bx) <= rnd (B2R sx / B2R bs)).
      { destruct (Rlt_or_le (rnd (B2R sx / B2R bs)) (bpow radix2 emax)) as [Sm|Ov].
        - destruct (Bdiv_small_R sx bs ltac:(lra) Fs) as (Fp & Rp); [rewrite Rabs_pos_eq by exact Q0; exact Sm|].
          change (Bdiv mode_NE sx bs) with px in Fp, Rp. change (Bltb px (ofN KB bx) = false) in E2.
          rewrite (Bltb_R prec emax) in E2 by assumption. apply Rltb_false in E2. rewrite Rn, Rp in E2. exact E2.
        - pose proof (IZR_lt_bpow_prec prec Hprec2 (Z.of_N bx) ltac:(lia)) as X.
          rewrite Rabs_pos_eq in X by (apply IZR_le; lia).
          pose proof (bpow_prec_lt_emax prec emax Hmax). lra. }
      rewrite Rs in E1, Q.
      destruct (lower_R (B2R x) (B2R xmin) (B2R bs) (Z.of_N bx) (fmtB prec emax x) (fmtB prec emax xmin) HS
                  ltac:(lia) E1 Q) as (_ & DL).
      unfold axis_pos. apply pos_le; assumption.
  Qed.
End Float.

(* ------------------------------------------------------------------------------------------- *)
(** * [fill1d] itself *)
Section Fill.
  Variables prec emax : Z.
  Context (Hprec : FLX.Prec_gt_0 prec) (Hmax : Prec_lt_emax prec emax).
  Hypothesis Hprec2 : (2 <= prec)%Z.
  Notation KB := (NumB prec emax Hprec Hmax).
  Notation u := (bpow radix2 (- prec)).
  Notation apos := (axis_pos prec emax).
  Notation aok := (axis_ok prec emax Hprec Hmax).

  (** every successful fill either changes nothing (the coordinate was rejected: it is left of the range, or
      right of it up to the rounding error - the latter two claims only when x - xmin did not overflow) or
      is the update of one bin k whose interval contains the coordinate up to two relative rounding errors *)
  Lemma c11f_fill1d_placement (ps : list (dparams KB)) ds idx (x v : KB) p :
    nthN ps idx = Some p -> isfinite KB v = true ->
    aok (d_xmin p) (d_bsx p) (d_bx p) -> isfinite KB x = true ->
    forall ds', fill1d ps ds idx x v = Ok ds' ->
      (ds' = ds /\ axis_bin (d_xmin p) (d_bsx p) (d_bx p) x = Ok None /\
       (isfinite KB (sub KB x (d_xmin p)) = true ->
        apos (d_xmin p) (d_bsx p) x < 0 \/
        IZR (Z.of_N (d_bx p)) * (1 - u) * (1 - u) <= apos (d_xmin p) (d_bsx p) x)) \/
      (exists k, (k < d_bx p)%N /\ axis_bin (d_xmin p) (d_bsx p) (d_bx p) x = Ok (Some k) /\
         upd_bin ds idx k v = Ok ds' /\
         0 <= apos (d_xmin p) (d_bsx p) x /\
         IZR (Z.of_N k) * (1 - u) * (1 - u) <= apos (d_xmin p) (d_bsx p) x < (IZR (Z.of_N k) + 1) * (1 + u)).
  Proof.
    intros Hp Hv Hax Fx ds' H. rewrite (c11f_fill1d_axis ps ds idx x v p Hp Hv) in H.
    destruct (axis_bin (d_xmin p) (d_bsx p) (d_bx p) x) as [[k|]|c] eqn:E; cbn [bind] in H; [| |discriminate H].
    - right. exists k.
      destruct (c11f_axis_bin_bounds prec emax Hprec Hmax Hprec2 _ _ x _ k Hax Fx E) as (Hk & _ & _ & P0 & PB).
      split; [exact Hk|]. split; [reflexivity|]. split; [exact H|]. split; [exact P0|exact PB].
    - left. injection H as <-. split; [reflexivity|]. split; [reflexivity|]. intros Fs.
      apply (c11f_axis_bin_rejected prec emax Hprec Hmax Hprec2 _ _ x _ Hax Fx Fs E).
  Qed.

  (** a coordinate whose exact position is at least k (1 + u) and at most (k + 1)(1 - 2u) is added to bin k *)
  Lemma c11f_fill1d_interior (ps : list (dparams KB)) ds idx (x v : KB) p (k : N) :
    nthN ps idx = Some p -> isfinite KB v = true ->
    aok (d_xmin p) (d_bsx p) (d_bx p) -> (d_bx p <= two64)%N -> isfinite KB x = true ->
    isfinite KB (sub KB x (d_xmin p)) = true -> (k < d_bx p)%N ->
    IZR (Z.of_N k) * (1 + u) <= apos (d_xmin p) (d_bsx p) x <= (IZR (Z.of_N k) + 1) * (1 - 2 * u) ->
    fill1d ps ds idx x v = upd_bin ds idx k v.
  Proof.
    intros Hp Hv Hax H64 Fx Fs Hk HP. rewrite (c11f_fill1d_axis ps ds idx x v p Hp Hv).
    rewrite (c11f_axis_bin_interior prec emax Hprec Hmax Hprec2 _ _ x _ k Hax H64 Fx Fs Hk HP). reflexivity.
  Qed.
End Fill.

(* ------------------------------------------------------------------------------------------- *)
(** * examples (double): range [0,16) in 4 bins of size 4; all float values computed inside boolean checks *)
Definition ex11f_p : dparams B64 :=
  @mk_dparams B64 4 1 (zero B64) (zero B64) (ofN B64 4) (ofN B64 1) String.EmptyString.

Definition axis_is (K : Num) (xmin bs : K) (bx : N) (x : K) (o : option N) : bool :=
  match axis_bin xmin bs bx x, o with
  | Ok (Some j), Some i => N.eqb j i
  | Ok None, None => true
  | _, _ => false
  end.
Lemma axis_is_eq K xmin bs bx x o : axis_is K xmin bs bx x o = true -> axis_bin xmin bs bx x = Ok o.
Proof.
  unfold axis_is. destruct (axis_bin xmin bs bx x) as [[j|]|c]; destruct o as [i|]; try discriminate.
  - intros H. apply N.eqb_eq in H. subst. reflexivity.
  - reflexivity.
Qed.

Definition ex11f_check : bool :=
  isfinite B64 (d_xmin ex11f_p) && isfinite B64 (d_bsx ex11f_p) && ltb B64 (zero B64) (d_bsx ex11f_p) &&
  isfinite B64 (ofN B64 9) && isfinite B64 (sub B64 (ofN B64 9) (d_xmin ex11f_p)) &&
  isfinite B64 (ofN B64 8) && isfinite B64 (ofN B64 16) && isfinite B64 (sub B64 (ofN B64 16) (d_xmin ex11f_p)) &&
  axis_is B64 (d_xmin ex11f_p) (d_bsx ex11f_p) (d_bx ex11f_p) (ofN B64 9) (Some 2%N) &&
  axis_is B64 (d_xmin ex11f_p) (d_bsx ex11f_p) (d_bx ex11f_p) (ofN B64 8) (Some 2%N) &&
  axis_is B64 (d_xmin ex11f_p) (d_bsx ex11f_p) (d_bx ex11f_p) (ofN B64 16) None.
Lemma ex11f_check_true : ex11f_check = true.
Proof. vm_compute. reflexivity. Qed.

Lemma ex11f_axis_ok : axis_ok 53 1024 P53 M53 (d_xmin ex11f_p) (d_bsx ex11f_p) (d_bx ex11f_p).
Proof.
  pose proof ex11f_check_true as H. unfold ex11f_check in H. split_andb H.
  split; [exact H|]. split; [assumption|]. split; [assumption|]. cbn. lia.
Qed.

Lemma ex11f_pos (n : N) : (Z.of_N n < 2 ^ 53)%Z ->
  axis_pos 53 1024 (d_xmin ex11f_p) (d_bsx ex11f_p) (ofN B64 n) = IZR (Z.of_N n) / 4.
Proof.
  intros Hn. unfold axis_pos.
  destruct (ofN_B 53 1024 P53 M53 ltac:(lia) n Hn) as (_ & En).
  destruct (ofN_B 53 1024 P53 M53 ltac:(lia) 4 ltac:(cbn; lia)) as (_ & E4).
  change (B2R (ofN B64 n)) with (B2R (ofN (NumB 53 1024 P53 M53) n)). rewrite En.
  change (B2R (d_bsx ex11f_p)) with (B2R (ofN (NumB 53 1024 P53 M53) 4)). rewrite E4.
  change (B2R (d_xmin ex11f_p)) with 0. cbn [Z.of_N]. unfold Rminus. rewrite Ropp_0, Rplus_0_r. reflexivity.
Qed.

Lemma u53_small : 0 < bpow radix2 (- 53) <= / 8.
Proof. split; [apply bpow_gt_0|]. change (/ 8) with (bpow radix2 (-3)). apply bpow_le. lia. Qed.

(** x = 9: position 2.25 is in the interior range of bin 2, so every finite value is added to bin 2;
    x = 8 (exactly the edge 2) is computed to go to bin 2; x = 16 (the right end) is rejected *)
Lemma ex11f_fill :
  axis_ok 53 1024 P53 M53 (d_xmin ex11f_p) (d_bsx ex11f_p) (d_bx ex11f_p) /\ (d_bx ex11f_p <= two64)%N /\
  isfinite B64 (ofN B64 9) = true /\ isfinite B64 (sub B64 (ofN B64 9) (d_xmin ex11f_p)) = true /\
  (2 < d_bx ex11f_p)%N /\
  axis_pos 53 1024 (d_xmin ex11f_p) (d_bsx ex11f_p) (ofN B64 9) = 9 / 4 /\
  IZR (Z.of_N 2) * (1 + bpow radix2 (- 53)) <= 9 / 4 <= (IZR (Z.of_N 2) + 1) * (1 - 2 * bpow radix2 (- 53)) /\
  (forall ds (v : B64), isfinite B64 v = true ->
     @fill1d B64 [ex11f_p] ds 0 (ofN B64 9) v = upd_bin ds 0 2 v) /\
  axis_bin (d_xmin ex11f_p) (d_bsx ex11f_p) (d_bx ex11f_p) (ofN B64 9) = Ok (Some 2%N) /\
  axis_bin (d_xmin ex11f_p) (d_bsx ex11f_p) (d_bx ex11f_p) (ofN B64 8) = Ok (Some 2%N) /\
  axis_bin (d_xmin ex11f_p) (d_bsx ex11f_p) (d_bx ex11f_p) (ofN B64 16) = Ok None /\
  isfinite B64 (sub B64 (ofN B64 16) (d_xmin ex11f_p)) = true /\
  axis_pos 53 1024 (d_xmin ex11f_p) (d_bsx ex11f_p) (ofN B64 16) = 16 / 4.
Proof.
  pose proof ex11f_check_true as H. unfold ex11f_check in H. split_andb H.
  pose proof ex11f_axis_ok as Hax. pose proof u53_small as (U0 & U8).
  assert (P9 : axis_pos 53 1024 (d_xmin ex11f_p) (d_bsx ex11f_p) (ofN B64 9) = 9 / 4)
    by (apply (ex11f_pos 9); cbn; lia).
  assert (R9 : IZR (Z.of_N 2) * (1 + bpow radix2 (- 53)) <= 9 / 4 <=
               (IZR (Z.of_N 2) + 1) * (1 - 2 * bpow radix2 (- 53))).
  { cbn [Z.of_N]. lra. }
  assert (B64' : (d_bx ex11f_p <= two64)%N) by (unfold two64; cbn; lia).
  assert (K2 : (2 < d_bx ex11f_p)%N) by (cbn; lia).
  split; [exact Hax|]. split; [exact B64'|]. split; [assumption|]. split; [assumption|]. split; [exact K2|].
  split; [exact P9|]. split; [exact R9|]. split.
  { intros ds v Hv.
    assert (F9 : isfinite B64 (ofN B64 9) = true) by assumption.
    assert (Fs9 : isfinite B64 (sub B64 (ofN B64 9) (d_xmin ex11f_p)) = true) by assumption.
    assert (HP : IZR (Z.of_N 2) * (1 + bpow radix2 (- 53)) <=
                 axis_pos 53 1024 (d_xmin ex11f_p) (d_bsx ex11f_p) (ofN B64 9) <=
                 (IZR (Z.of_N 2) + 1) * (1 - 2 * bpow radix2 (- 53))) by (rewrite P9; exact R9).
    exact (c11f_fill1d_interior 53 1024 P53 M53 ltac:(lia) [ex11f_p] ds 0%N (ofN B64 9) v ex11f_p 2%N
             eq_refl Hv Hax B64' F9 Fs9 K2 HP). }
  split; [apply axis_is_eq; assumption|]. split; [apply axis_is_eq; assumption|].
  split; [apply axis_is_eq; assumption|]. split; [assumption|].
  apply (ex11f_pos 16). cbn. lia.
Qed.
