(** * Result: mc_result.hpp, plain_result.hpp, distribution_parameters.hpp, distribution_result.hpp,
    vegas_result.hpp, multi_channel_result.hpp.  [value], [variance] and [create_result] come from
    the translator.  No proofs in this file. *)
From Coq Require Import ZArith NArith List String.
From HepMC Require Import Num Translated.
Import ListNotations.

Section Result.
  Context {K : Num}.

  Record mcres := mk_mcres { r_calls : N; r_nz : N; r_fin : N; r_sum : K; r_sumsq : K }.

  Definition value (r : mcres) : K := mc_value K (Z.of_N (r_calls r)) (r_sum r) (r_sumsq r).
  Definition variance (r : mcres) : K := mc_variance K (Z.of_N (r_calls r)) (r_sum r) (r_sumsq r).
  Definition error (r : mcres) : K := fsqrt K (variance r).

  Definition mk_result (calls nz fin : N) (v e : K) : mcres :=
    let '(c, n, f, s, ss) := create_result K (Z.of_N calls) (Z.of_N nz) (Z.of_N fin) v e in
    mk_mcres (Z.to_N c) (Z.to_N n) (Z.to_N f) s ss.

  Record dparams := mk_dparams {
    d_bx : N; d_by : N; d_xmin : K; d_ymin : K; d_bsx : K; d_bsy : K; d_name : string }.

  Definition make_dparams2 (bx by_ : N) (xmin xmax ymin ymax : K) (name : string) : dparams :=
    mk_dparams bx by_ xmin ymin
      (div K (sub K xmax xmin) (ofN K bx)) (div K (sub K ymax ymin) (ofN K by_)) name.
  Definition make_dparams1 (bins : N) (xmin xmax : K) (name : string) : dparams :=
    make_dparams2 bins 1 xmin xmax (zero K) (one K) name.

  Record dres := mk_dres { dr_par : dparams; dr_bins : list mcres }.
  Record plainres := mk_plainres { p_main : mcres; p_dists : list dres }.

  (* x += bin_size, [n] values starting at [x] *)
  Fixpoint walk (n : nat) (x step : K) : list K :=
    match n with O => [] | S n' => x :: walk n' (add K x step) step end.

  Definition mid_points_x (d : dres) : list K :=
    let p := dr_par d in
    let row := walk (N.to_nat (d_bx p)) (add K (d_xmin p) (mul K half (d_bsx p))) (d_bsx p) in
    List.concat (repeat row (N.to_nat (d_by p))).

  Definition mid_points_y (d : dres) : list K :=
    let p := dr_par d in
    let ys := walk (N.to_nat (d_by p)) (add K (d_ymin p) (mul K half (d_bsy p))) (d_bsy p) in
    List.concat (map (fun y => repeat y (N.to_nat (d_bx p))) ys).

  (* vegas_pdf: flat vector of dims * (bins + 1) boundaries, exactly as in the C++ *)
  Record pdf := mk_pdf { pdf_bins : N; pdf_dims : N; pdf_x : list K }.

  Record vegasres := mk_vegasres { v_plain : plainres; v_pdf : pdf; v_adj : list K }.
  Record mcres_mc := mk_mcres_mc { m_plain : plainres; m_adj : list K; m_weights : list K }.
End Result.
Arguments mcres K : clear implicits.
Arguments dparams K : clear implicits.
Arguments dres K : clear implicits.
Arguments plainres K : clear implicits.
Arguments pdf K : clear implicits.
Arguments vegasres K : clear implicits.
Arguments mcres_mc K : clear implicits.
