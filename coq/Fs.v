(** * Fs: the file-system view of the built-in callback's checkpoint writing (callback.hpp after the
    atomic-replace repair): a temporary sibling is created/truncated, the serialised text is written
    to it in pieces chosen by the stream buffer, it is closed, and it is renamed over the final name.

    Assumptions (POSIX, not verified): a process that is killed keeps the effect of every system
    call that completed and of a prefix of the bytes of the write in progress (no power-loss model);
    [rename] replaces the destination atomically; [open(O_TRUNC)] empties the file immediately.
    No proofs in this file. *)
From Coq Require Import List String Bool Arith.
Import ListNotations.

Section Fs.
  Variable A : Type.                                 (* bytes *)
  Definition path := string.

  Inductive fsop :=
  | OpOpen (p : path)                                (* open(p, O_WRONLY|O_CREAT|O_TRUNC) *)
  | OpWrite (p : path) (data : list A)               (* write / writev on the descriptor of p *)
  | OpClose (p : path)
  | OpRename (src dst : path).

  (* association list, first match wins *)
  Definition fs := list (path * list A).
  Fixpoint lookup (s : fs) (p : path) : option (list A) :=
    match s with
    | [] => None
    | (q, c) :: s' => if String.eqb p q then Some c else lookup s' p
    end.
  Definition remove (p : path) (s : fs) : fs := filter (fun '(q, _) => negb (String.eqb p q)) s.
  Definition set (s : fs) (p : path) (c : list A) : fs := (p, c) :: s.

  Definition apply (s : fs) (o : fsop) : fs :=
    match o with
    | OpOpen p => set s p []
    | OpWrite p d => match lookup s p with Some c => set s p (c ++ d) | None => s end
    | OpClose _ => s
    | OpRename a b => match lookup s a with Some c => set (remove a s) b c | None => s end
    end.

  Definition run_ops (s : fs) (ops : list fsop) : fs := fold_left apply ops s.

  (** every state in which a kill can leave the file system: before any operation, between two
      operations, after the last one, and inside a write after any proper non-empty prefix of its
      bytes *)
  Fixpoint crash_states (s : fs) (ops : list fsop) : list fs :=
    s :: match ops with
         | [] => []
         | o :: ops' =>
           (match o with
            | OpWrite p d => map (fun k => apply s (OpWrite p (firstn k d))) (seq 1 (List.length d - 1))
            | _ => []
            end) ++ crash_states (apply s o) ops'
         end.

  Definition tmp_of (filename : path) : path := (filename ++ ".tmp")%string.

  (** what one invocation of the writing callback does, for any way the stream buffer cuts the text *)
  Definition write_chkpt_ops (filename : path) (chunks : list (list A)) : list fsop :=
    OpOpen (tmp_of filename) :: map (OpWrite (tmp_of filename)) chunks
    ++ [OpClose (tmp_of filename); OpRename (tmp_of filename) filename].

  (** the pinned tree before the repair: truncate and rewrite in place *)
  Definition write_in_place_ops (filename : path) (chunks : list (list A)) : list fsop :=
    OpOpen filename :: map (OpWrite filename) chunks ++ [OpClose filename].

  (** a whole run: one callback invocation per iteration *)
  Definition run_writes (filename : path) (texts : list (list (list A))) : list fsop :=
    flat_map (write_chkpt_ops filename) texts.
  (** faults (a system call fails and the process goes on): the open of the temporary fails - the
      stream is bad, nothing is written, closed or renamed; or a write, the close or the rename
      fails after [written] reached the temporary - the stream test after close() is false (or the
      rename itself did nothing) and the final name is not touched.  The pieces that reach the
      temporary in that case are whatever the stream buffer managed to write: any list. *)
  Inductive outcome :=
  | Completes (chunks : list (list A))
  | OpenFails
  | Incomplete (written : list (list A)).

  Definition invocation_ops (filename : path) (o : outcome) : list fsop :=
    match o with
    | Completes chunks => write_chkpt_ops filename chunks
    | OpenFails => []
    | Incomplete written => OpOpen (tmp_of filename) :: map (OpWrite (tmp_of filename)) written ++ [OpClose (tmp_of filename)]
    end.

  Definition run_outcomes (filename : path) (os : list outcome) : list fsop :=
    flat_map (invocation_ops filename) os.

  (** the text of the last invocation that completed, if any *)
  Fixpoint last_completed (os : list outcome) (acc : option (list A)) : option (list A) :=
    match os with
    | [] => acc
    | Completes chunks :: os' => last_completed os' (Some (List.concat chunks))
    | _ :: os' => last_completed os' acc
    end.
End Fs.
Arguments OpOpen {A}. Arguments OpWrite {A}. Arguments OpClose {A}. Arguments OpRename {A}.
Arguments Completes {A}. Arguments OpenFails {A}. Arguments Incomplete {A}.
