(** C16 - the MPI work split tiles the calls exactly.
    Statements only (proofs in Lemmas_C16.v).  Every theorem is about the definitions the translator
    regenerates from generator_helper.hpp, mpi_plain.hpp, mpi_vegas.hpp and mpi_multi_channel.hpp on
    every run, with the C++ unsigned 64-bit wrap-around made explicit ([wrap64]).  Range hypotheses
    ([in_range]): 0 <= total < 2^64, 1 <= world < 2^31 (MPI world sizes are C ints),
    0 <= rank < world. *)
From Coq Require Import ZArith List.
From HepMC Require Import Num Translated Lemmas_C16.
Local Open Scope Z_scope.

(* the three textual copies of sub_calls all compute floor(total/world) + [rank < total mod world];
   no wrap-around occurs *)
Theorem C16_sub_calls_is_spec : forall total rank world, in_range total rank world ->
  sub_calls_plain total rank world = sub_spec total rank world /\
  sub_calls_vegas total rank world = sub_spec total rank world /\
  sub_calls_multi_channel total rank world = sub_spec total rank world.
Proof. exact c16_sub_calls_is_spec. Qed.
Print Assumptions C16_sub_calls_is_spec.

(* per-rank call counts differ by at most one ... *)
Theorem C16_balanced : forall total rank world, in_range total rank world ->
  sub_calls_plain total rank world = total / world \/ sub_calls_plain total rank world = total / world + 1.
Proof. exact c16_balanced. Qed.
Print Assumptions C16_balanced.

(* ... and sum to the total (sum over ranks 0 .. world-1 of the specification, which the code equals) *)
Theorem C16_sum_is_total : forall total world, 0 <= total < 2 ^ 64 -> 1 <= world < 2 ^ 31 ->
  sum_sub total world (Z.to_nat world) = total.
Proof. exact sum_sub_total. Qed.
Print Assumptions C16_sum_is_total.

(* rank 0 starts at 0; rank r + 1 starts exactly where rank r ends: no gap, no overlap *)
Theorem C16_contiguous : forall total rank world, in_range total rank world ->
  discard_before total 0 world = 0 /\
  discard_before total rank world + sub_calls_plain total rank world = before_spec total (rank + 1) world /\
  (rank + 1 < world -> discard_before total (rank + 1) world = discard_before total rank world + sub_calls_plain total rank world).
Proof. exact c16_contiguous. Qed.
Print Assumptions C16_contiguous.

(* skipped-before + own share + skipped-after = total: every rank ends at the same stream position *)
Theorem C16_all_ranks_end_at_total : forall total rank world, in_range total rank world ->
  discard_before total rank world + sub_calls_plain total rank world
  + discard_after total (sub_calls_plain total rank world) rank world = total.
Proof. exact c16_all_ranks_end_at_total. Qed.
Print Assumptions C16_all_ranks_end_at_total.

(* non-vacuity: a concrete uneven split satisfies the hypotheses and shows the expected numbers *)
Example C16_example : in_range 10 2 4 /\ sub_calls_plain 10 2 4 = 2 /\ discard_before 10 2 4 = 6 /\ discard_after 10 2 2 4 = 2.
Proof. exact c16_example. Qed.
