(** Lemmas for C08: channel weights stay a probability vector; disabled channels and the floor are
    respected.
    (a) every [Num]: closed form of the first loop, the "no information" branch;
    (b) [NumR] with a [Libm] whose [fpow] behaves like C's pow on the base 0 ([pow_ok]):
        probability vector, disabled channels, formula, floor, chains of refinements;
    (c) [NumB prec emax]: a disabled channel stays exactly a zero. *)
From Coq Require Import ZArith NArith List Reals Lra Lia Bool.
From Flocq Require Import Core BinarySingleNaN.
From HepMC Require Import Num NumR NumB MultiChannel Lemmas_C09.
Import ListNotations.

(* ------------------------------------------------------------------------------------------- *)
(** * (a) every Num *)
Section Gen.
  Context {K : Num} (L : Libm K).

  (** new_weights after the first loop: w_i * pow(d_i, beta) *)
  Fixpoint raw_list (ws data : list K) (beta : K) : list K :=
    match ws, data with
    | w :: ws', d :: data' => mul K w (fpow L d beta) :: raw_list ws' data' beta
    | _, _ => []
    end.

  Lemma raw_weights_ok : forall ws data beta, (length ws <= length data)%nat ->
    raw_weights L ws data beta = Ok (raw_list ws data beta).
  Proof.
    induction ws as [|w ws IH]; intros data beta H; [reflexivity|].
    destruct data as [|d data]; [cbn in H; lia|].
    cbn [raw_weights raw_list]. rewrite IH by (cbn in H; lia). reflexivity.
  Qed.

  Lemma raw_weights_inv : forall ws data beta raw, raw_weights L ws data beta = Ok raw ->
    (length ws <= length data)%nat /\ raw = raw_list ws data beta.
  Proof.
    induction ws as [|w ws IH]; intros data beta raw H.
    - cbn in H. injection H as <-. split; [cbn; lia|reflexivity].
    - destruct data as [|d data]; [discriminate H|]. cbn [raw_weights] in H.
      destruct (raw_weights L ws data beta) as [rest|c] eqn:E; [|discriminate H].
      cbn [bind] in H. injection H as <-. destruct (IH _ _ _ E) as (Hl & ->).
      split; [cbn; lia|reflexivity].
  Qed.

  Lemma raw_list_length : forall ws data beta, (length ws <= length data)%nat ->
    length (raw_list ws data beta) = length ws.
  Proof.
    induction ws as [|w ws IH]; intros data beta H; [reflexivity|].
    destruct data as [|d data]; [cbn in H; lia|]. cbn [raw_list length]. rewrite IH by (cbn in H; lia).
    reflexivity.
  Qed.

  Lemma raw_list_nth_error : forall ws data beta i w d,
    nth_error ws i = Some w -> nth_error data i = Some d ->
    nth_error (raw_list ws data beta) i = Some (mul K w (fpow L d beta)).
  Proof.
    induction ws as [|w0 ws IH]; intros data beta i w d Ew Ed; [destruct i; discriminate Ew|].
    destruct data as [|d0 data]; [destruct i; discriminate Ed|].
    destruct i as [|i].
    - cbn in Ew, Ed. injection Ew as <-. injection Ed as <-. reflexivity.
    - cbn [raw_list nth_error] in *. apply IH; assumption.
  Qed.

  (** the value [new_sum] of the second loop *)
  Definition new_sum_of (raw : list K) (minw : K) : K :=
    clamp_sum (map (clamp (fold_left (add K) raw (zero K)) minw) raw).

  (** the repaired branch: a raw total that compares equal to T() returns the weights unchanged *)
  Lemma c08_zero_total_id ws data minw beta raw :
    raw_weights L ws data beta = Ok raw ->
    eqb K (fold_left (add K) raw (zero K)) (zero K) = true ->
    refine_weights L ws data minw beta = Ok ws.
  Proof. intros E Z. unfold refine_weights. rewrite E. cbn [bind]. rewrite Z. reflexivity. Qed.

  Lemma refine_nonzero ws data minw beta raw :
    raw_weights L ws data beta = Ok raw ->
    eqb K (fold_left (add K) raw (zero K)) (zero K) = false ->
    refine_weights L ws data minw beta =
      Ok (map (fun w => div K w (new_sum_of raw minw))
              (map (clamp (fold_left (add K) raw (zero K)) minw) raw)).
  Proof. intros E Z. unfold refine_weights. rewrite E. cbn [bind]. rewrite Z. reflexivity. Qed.
End Gen.

(* ------------------------------------------------------------------------------------------- *)
(** * (b) the reals *)
Local Open Scope R_scope.

(** Coq's [Rpower 0 b] is [exp (b * ln 0) = exp 0 = 1], whereas C's pow(0, b) = 0 for b > 0.  The
    theorems are therefore stated for every [Libm NumR] whose [fpow] agrees with C on that point: *)
Definition pow_ok (L : Libm NumR) : Prop :=
  (forall b : R, 0 < b -> fpow L 0 b = 0) /\ (forall d b : R, 0 < d -> 0 < fpow L d b).

(** ... and this instance (real power with the C convention at 0) satisfies it *)
Definition Rpow0 (x y : R) : R := if Req_EM_T x 0 then 0 else Rpower x y.
Definition LibmR0 : Libm NumR := @Build_Libm NumR ln Rpow0.

Lemma pow_ok_LibmR0 : pow_ok LibmR0.
Proof.
  split.
  - intros b _. cbn. unfold Rpow0. destruct (Req_EM_T 0 0); [reflexivity|congruence].
  - intros d b Hd. cbn. unfold Rpow0. destruct (Req_EM_T d 0) as [E|E]; [exfalso; lra|]. unfold Rpower. apply exp_pos.
Qed.

(* [LibmR] itself is not [pow_ok]: Coq's Rpower gives 0^b = 1 *)
Lemma LibmR_pow_zero (b : R) : fpow LibmR 0 b = 1.
Proof.
  cbn. unfold Rpower, ln. destruct (Rlt_dec 0 0) as [H|H]; [exfalso; lra|]. rewrite Rmult_0_r. apply exp_0.
Qed.

(** the second loop over the reals: zero entries stay, the others are divided by the raw total and
    raised to the minimum weight *)
Definition clampR (S minw r : R) : R := if Req_EM_T r 0 then 0 else Rmax (r / S) minw.

(** S = sum of the raw weights, S2 = sum of the clamped (non-zero) entries *)
Definition raw_total (L : Libm NumR) (ws data : list R) (beta : R) : R :=
  Rsum (@raw_list NumR L ws data beta).
Definition clamped_total (L : Libm NumR) (ws data : list R) (minw beta : R) : R :=
  Rsum (map (clampR (raw_total L ws data beta) minw) (@raw_list NumR L ws data beta)).

Lemma fold_left_Rplus : forall (l : list R) a, fold_left Rplus l a = a + Rsum l.
Proof.
  induction l as [|x l IH]; intros a; cbn [fold_left Rsum fold_right]; [ring|].
  rewrite IH. unfold Rsum. ring.
Qed.

Lemma total_R (l : list R) : fold_left (add NumR) l (zero NumR) = Rsum l.
Proof. change (fold_left Rplus l 0 = Rsum l). rewrite fold_left_Rplus. ring. Qed.

Lemma clamp_R (S minw r : R) : @clamp NumR S minw r = clampR S minw r.
Proof.
  unfold clamp, clampR. change (eqb NumR r (zero NumR)) with (Reqb r 0). unfold Reqb.
  destruct (Req_EM_T r 0) as [E|E]; [exact E|]. rewrite fmaxR. reflexivity.
Qed.

Lemma clamp_sum_R (l : list R) : @clamp_sum NumR l = Rsum l.
Proof.
  change (fold_left (fun acc w : R => if Reqb w 0 then acc else acc + w) l 0 = Rsum l).
  assert (G : forall a : R, fold_left (fun acc w : R => if Reqb w 0 then acc else acc + w) l a = a + Rsum l).
  { induction l as [|x l IH]; intros a; cbn [fold_left Rsum fold_right]; [ring|].
    rewrite IH. unfold Reqb. destruct (Req_EM_T x 0) as [E|E].
    - rewrite E. unfold Rsum. ring.
    - unfold Rsum. ring. }
  rewrite G. ring.
Qed.

Lemma Rsum_map_div (l : list R) c : Rsum (map (fun w => w / c) l) = Rsum l / c.
Proof.
  induction l as [|x l IH]; cbn [map Rsum fold_right]; [unfold Rdiv; ring|].
  fold (Rsum (map (fun w => w / c) l)). rewrite IH. unfold Rsum, Rdiv. ring.
Qed.

Lemma nonneg_nth (l : list R) i : nonneg l -> 0 <= nth i l 0.
Proof.
  intros NN. destruct (nth_error l i) as [x|] eqn:E.
  - rewrite (nth_error_nth _ _ _ E). unfold nonneg in NN. rewrite Forall_forall in NN.
    apply NN. eapply nth_error_In; eauto.
  - rewrite nth_overflow by (apply nth_error_None; exact E). lra.
Qed.

Lemma Rsum_nonneg (l : list R) : nonneg l -> 0 <= Rsum l.
Proof.
  induction 1 as [|x l Hx _ IH]; cbn [Rsum fold_right]; [lra|]. fold (Rsum l). lra.
Qed.

Lemma Rsum_ge_nth : forall (l : list R) i, nonneg l -> nth i l 0 <= Rsum l.
Proof.
  induction l as [|x l IH]; intros i NN.
  - destruct i; cbn; lra.
  - inversion NN as [|y z Hx NN']; subst. cbn [Rsum fold_right]. fold (Rsum l).
    pose proof (Rsum_nonneg l NN'). destruct i as [|i]; cbn [nth]; [lra|]. pose proof (IH i NN'). lra.
Qed.

Lemma Rsum_zero_all (l : list R) : nonneg l -> Rsum l = 0 -> forall i, nth i l 0 = 0.
Proof.
  intros NN Z i. pose proof (Rsum_ge_nth l i NN). pose proof (nonneg_nth l i NN). lra.
Qed.

Lemma classic_pos : forall l : list R, nonneg l -> Rsum l = 0 \/ exists i, 0 < nth i l 0.
Proof.
  induction l as [|x l IH]; intros NN; [left; reflexivity|].
  inversion NN as [|y z Hx NN']; subst. destruct (Req_dec x 0) as [->|N].
  - destruct (IH NN') as [Z|(i & Hi)].
    + left. cbn [Rsum fold_right]. fold (Rsum l). lra.
    + right. exists (S i). exact Hi.
  - right. exists 0%nat. cbn. lra.
Qed.

Section RealRefine.
  Variable L : Libm NumR.
  Hypothesis HL : pow_ok L.

  Lemma fpow_nonneg d b : 0 <= d -> 0 < b -> 0 <= fpow L d b.
  Proof.
    intros Hd Hb. destruct HL as (P0 & Ppos). destruct (Req_dec d 0) as [->|N].
    - rewrite P0 by exact Hb. lra.
    - left. apply Ppos. lra.
  Qed.

  Lemma raw_nonneg : forall (ws data : list R) (beta : R), nonneg ws -> nonneg data -> 0 < beta ->
    nonneg (@raw_list NumR L ws data beta).
  Proof.
    induction ws as [|w ws IH]; intros data beta NW ND Hb; [constructor|].
    destruct data as [|d data]; [constructor|].
    inversion NW as [|x y Hw NW']; subst. inversion ND as [|x y Hd ND']; subst.
    cbn [raw_list]. constructor; [|apply IH; assumption].
    change (0 <= w * fpow L d beta). apply Rmult_le_pos; [exact Hw|apply fpow_nonneg; assumption].
  Qed.

  Lemma raw_nth (ws data : list R) (beta : R) (i : nat) : (length ws = length data)%nat ->
    @nth R i (@raw_list NumR L ws data beta) 0 = nth i ws 0 * fpow L (nth i data 0) beta.
  Proof.
    intros Hl. destruct (nth_error ws i) as [w|] eqn:Ew.
    - destruct (nth_error data i) as [d|] eqn:Ed.
      + rewrite (nth_error_nth _ _ _ (@raw_list_nth_error NumR L ws data beta i w d Ew Ed)).
        rewrite (nth_error_nth _ _ _ Ew), (nth_error_nth _ _ _ Ed). reflexivity.
      + apply nth_error_None in Ed. assert (X : nth_error ws i <> None) by congruence.
        apply nth_error_Some in X. lia.
    - apply nth_error_None in Ew. rewrite (nth_overflow ws) by exact Ew.
      rewrite nth_overflow; [symmetry; apply Rmult_0_l|]. rewrite (@raw_list_length NumR L); [exact Ew|]. change (T NumR) with R in *. lia.
  Qed.

  (** the result of the non-degenerate branch in closed form *)
  Lemma refine_R_closed (ws data : list R) (minw beta : R) : (length ws = length data)%nat ->
    raw_total L ws data beta <> 0 ->
    @refine_weights NumR L ws data minw beta =
      Ok (map (fun c : R => c / clamped_total L ws data minw beta)
              (map (clampR (raw_total L ws data beta) minw) (@raw_list NumR L ws data beta))).
  Proof.
    intros Hl HS. unfold refine_weights.
    rewrite (@raw_weights_ok NumR L ws data beta) by (change (T NumR) with R in *; lia).
    cbn [bind]. cbv zeta.
    assert (E : fold_left (add NumR) (@raw_list NumR L ws data beta) (zero NumR) = raw_total L ws data beta)
      by apply total_R.
    rewrite E.
    assert (Z : eqb NumR (raw_total L ws data beta) (zero NumR) = false) by (apply Reqb_false; exact HS).
    rewrite Z.
    rewrite (map_ext (@clamp NumR (raw_total L ws data beta) minw) (clampR (raw_total L ws data beta) minw))
      by (intros; apply clamp_R).
    rewrite clamp_sum_R. reflexivity.
  Qed.

  Lemma refine_R (ws data : list R) (minw beta : R) : (length ws = length data)%nat ->
    raw_total L ws data beta <> 0 ->
    exists ws', @refine_weights NumR L ws data minw beta = Ok ws' /\ length ws' = length ws /\
      Rsum ws' = clamped_total L ws data minw beta / clamped_total L ws data minw beta /\
      forall i, nth i ws' 0 =
        clampR (raw_total L ws data beta) minw (@nth R i (@raw_list NumR L ws data beta) 0)
        / clamped_total L ws data minw beta.
  Proof.
    intros Hl HS. eexists. split; [apply refine_R_closed; assumption|].
    split; [rewrite !map_length; apply (@raw_list_length NumR L); change (T NumR) with R in *; lia|].
    split; [apply (Rsum_map_div _ (clamped_total L ws data minw beta))|].
    intros i.
    set (f := fun c : R => c / clamped_total L ws data minw beta).
    set (g := clampR (raw_total L ws data beta) minw).
    assert (F0 : f 0 = 0) by (unfold f, Rdiv; ring).
    assert (G0 : g 0 = 0) by (unfold g, clampR; destruct (Req_EM_T 0 0); [reflexivity|congruence]).
    rewrite <- F0 at 1. rewrite map_nth. rewrite <- G0 at 1. rewrite map_nth. reflexivity.
  Qed.

  Lemma clampR_nonneg S minw r : 0 < S -> 0 <= r -> 0 <= clampR S minw r.
  Proof.
    intros HS Hr. unfold clampR. destruct (Req_EM_T r 0); [lra|].
    apply Rle_trans with (r / S); [|apply Rmax_l].
    apply Rmult_le_pos; [exact Hr|left; apply Rinv_0_lt_compat; exact HS].
  Qed.

  Lemma clampR_pos S minw r : 0 < S -> 0 < r -> r / S <= clampR S minw r /\ 0 < clampR S minw r.
  Proof.
    intros HS Hr. unfold clampR. destruct (Req_EM_T r 0); [lra|].
    assert (0 < r / S) by (apply Rmult_lt_0_compat; [exact Hr|apply Rinv_0_lt_compat; exact HS]).
    pose proof (Rmax_l (r / S) minw). lra.
  Qed.

  Lemma clamped_nonneg S minw (l : list R) : 0 < S -> nonneg l -> nonneg (map (clampR S minw) l).
  Proof.
    intros HS NN. induction NN as [|x l Hx _ IH]; cbn [map]; constructor; [|exact IH].
    apply clampR_nonneg; assumption.
  Qed.

  Section Step.
    Variables (ws data : list R) (minw beta : R).
    Hypothesis NW : nonneg ws.
    Hypothesis ND : nonneg data.
    Hypothesis Hl : length ws = length data.
    Hypothesis Hb : 0 < beta.
    Let S := raw_total L ws data beta.
    Let S2 := clamped_total L ws data minw beta.

    Lemma S_nonneg : 0 <= S.
    Proof. apply Rsum_nonneg. apply raw_nonneg; assumption. Qed.

    Lemma S_pos_of_witness i : 0 < nth i ws 0 * fpow L (nth i data 0) beta -> 0 < S.
    Proof.
      intros H. pose proof (raw_nth ws data beta i Hl) as X.
      pose proof (Rsum_ge_nth _ i (raw_nonneg ws data beta NW ND Hb)) as Y.
      unfold S, raw_total. change (T NumR) with R in *. lra.
    Qed.

    Lemma S2_pos : 0 < S -> 0 < S2.
    Proof.
      intros HS. unfold S2, clamped_total. fold S.
      assert (NR := raw_nonneg ws data beta NW ND Hb).
      (* some raw entry is positive *)
      assert (X : exists i, 0 < @nth R i (@raw_list NumR L ws data beta) 0).
      { destruct (classic_pos (@raw_list NumR L ws data beta) NR) as [Z|X]; [|exact X].
        exfalso. unfold S, raw_total in HS. lra. }
      destruct X as (i & Hi).
      pose proof (Rsum_ge_nth _ i (clamped_nonneg S minw _ HS NR)) as Y.
      assert (G0 : clampR S minw 0 = 0) by (unfold clampR; destruct (Req_EM_T 0 0); [reflexivity|congruence]).
      rewrite <- G0 in Y at 1. rewrite map_nth in Y.
      pose proof (clampR_pos S minw _ HS Hi) as (_ & Hc). change (T NumR) with R in *. lra.
    Qed.
  End Step.

  Lemma clampR_0 S minw : clampR S minw 0 = 0.
  Proof. unfold clampR. destruct (Req_EM_T 0 0); [reflexivity|congruence]. Qed.

  (** ** an iteration without information leaves the weights as they were *)
  Lemma c08_zero_data_id (ws data : list R) (minw beta : R) : (length ws = length data)%nat ->
    raw_total L ws data beta = 0 -> @refine_weights NumR L ws data minw beta = Ok ws.
  Proof.
    intros Hl Z. apply (@c08_zero_total_id NumR L ws data minw beta (@raw_list NumR L ws data beta)).
    - apply raw_weights_ok. change (T NumR) with R in *. lia.
    - rewrite total_R. apply Reqb_true. exact Z.
  Qed.

  Lemma Rsum_all_zero : forall l : list R, (forall i, nth i l 0 = 0) -> Rsum l = 0.
  Proof.
    induction l as [|x l IH]; intros H; [reflexivity|]. cbn [Rsum fold_right]. fold (Rsum l).
    rewrite (IH (fun i => H (S i))). pose proof (H 0%nat) as X. cbn in X. lra.
  Qed.

  Lemma c08_zero_products_id (ws data : list R) (minw beta : R) : (length ws = length data)%nat ->
    (forall i, nth i ws 0 * fpow L (nth i data 0) beta = 0) ->
    @refine_weights NumR L ws data minw beta = Ok ws.
  Proof.
    intros Hl H. apply c08_zero_data_id; [exact Hl|]. apply Rsum_all_zero.
    intros i. rewrite (raw_nth ws data beta i Hl). apply H.
  Qed.

  Lemma c08_all_zero_data_id (ws data : list R) (minw beta : R) : (length ws = length data)%nat -> 0 < beta ->
    (forall i, nth i data 0 = 0) -> @refine_weights NumR L ws data minw beta = Ok ws.
  Proof.
    intros Hl Hb H. apply c08_zero_products_id; [exact Hl|]. intros i. rewrite H.
    destruct HL as (P0 & _). rewrite (P0 beta Hb). ring.
  Qed.

  (** ** the non-degenerate branch produces a probability vector *)
  Lemma c08_prob_vector_S (ws data : list R) (minw beta : R) :
    nonneg ws -> nonneg data -> (length ws = length data)%nat -> 0 < beta ->
    0 < raw_total L ws data beta ->
    exists ws', @refine_weights NumR L ws data minw beta = Ok ws' /\
      length ws' = length ws /\ nonneg ws' /\ Rsum ws' = 1.
  Proof.
    intros NW ND Hl Hb HS.
    pose proof (S2_pos ws data minw beta NW ND Hb HS) as HS2.
    destruct (refine_R ws data minw beta Hl ltac:(lra)) as (ws' & E & Len & Sum & Nth).
    exists ws'. split; [exact E|]. split; [exact Len|]. split.
    - apply Forall_forall. intros x Hx. apply (In_nth _ _ 0) in Hx. destruct Hx as (i & _ & <-).
      rewrite Nth. apply Rmult_le_pos; [|left; apply Rinv_0_lt_compat; exact HS2].
      apply clampR_nonneg; [exact HS|]. apply nonneg_nth. apply raw_nonneg; assumption.
    - rewrite Sum. unfold Rdiv. apply Rinv_r. lra.
  Qed.

  Lemma c08_prob_vector (ws data : list R) (minw beta : R) :
    nonneg ws -> nonneg data -> (length ws = length data)%nat -> 0 < beta ->
    (exists i, 0 < nth i ws 0 * fpow L (nth i data 0) beta) ->
    exists ws', @refine_weights NumR L ws data minw beta = Ok ws' /\
      length ws' = length ws /\ nonneg ws' /\ Rsum ws' = 1.
  Proof.
    intros NW ND Hl Hb (i & Hi). apply c08_prob_vector_S; try assumption.
    apply (S_pos_of_witness ws data beta NW ND Hl Hb i Hi).
  Qed.

  (** ** a disabled channel is never re-enabled (both branches) *)
  Lemma c08_disabled_stay (ws data : list R) (minw beta : R) (ws' : list R) (i : nat) : (length ws = length data)%nat ->
    @refine_weights NumR L ws data minw beta = Ok ws' -> nth i ws 0 = 0 -> nth i ws' 0 = 0.
  Proof.
    intros Hl E Hw. destruct (Req_dec (raw_total L ws data beta) 0) as [Z|N].
    - rewrite (c08_zero_data_id ws data minw beta Hl Z) in E. injection E as <-. exact Hw.
    - destruct (refine_R ws data minw beta Hl N) as (ws'' & E' & _ & _ & Nth).
      rewrite E in E'. injection E' as <-. rewrite Nth, (raw_nth ws data beta i Hl), Hw, Rmult_0_l, clampR_0.
      unfold Rdiv. ring.
  Qed.

  (** observation: in the non-degenerate branch an enabled channel whose datum is zero is disabled *)
  Lemma c08_zero_datum_disables (ws data : list R) (minw beta : R) (ws' : list R) (i : nat) : (length ws = length data)%nat -> 0 < beta ->
    raw_total L ws data beta <> 0 ->
    @refine_weights NumR L ws data minw beta = Ok ws' -> nth i data 0 = 0 -> nth i ws' 0 = 0.
  Proof.
    intros Hl Hb N E Hd.
    destruct (refine_R ws data minw beta Hl N) as (ws'' & E' & _ & _ & Nth).
    rewrite E in E'. injection E' as <-. rewrite Nth, (raw_nth ws data beta i Hl), Hd.
    destruct HL as (P0 & _). rewrite (P0 beta Hb), Rmult_0_r, clampR_0. unfold Rdiv. ring.
  Qed.

  (** ** the formula for enabled channels with a positive datum *)
  Lemma c08_formula (ws data : list R) (minw beta : R) (ws' : list R) (i : nat) :
    nonneg ws -> nonneg data -> (length ws = length data)%nat -> 0 < beta ->
    @refine_weights NumR L ws data minw beta = Ok ws' ->
    0 < nth i ws 0 -> 0 < nth i data 0 ->
    nth i ws' 0 = Rmax (nth i ws 0 * fpow L (nth i data 0) beta / raw_total L ws data beta) minw
                  / clamped_total L ws data minw beta.
  Proof.
    intros NW ND Hl Hb E Hw Hd.
    assert (Hr : 0 < nth i ws 0 * fpow L (nth i data 0) beta).
    { apply Rmult_lt_0_compat; [exact Hw|]. destruct HL as (_ & Ppos). apply Ppos. exact Hd. }
    pose proof (S_pos_of_witness ws data beta NW ND Hl Hb i Hr) as HS.
    destruct (refine_R ws data minw beta Hl ltac:(lra)) as (ws'' & E' & _ & _ & Nth).
    rewrite E in E'. injection E' as <-. rewrite Nth, (raw_nth ws data beta i Hl).
    unfold clampR. destruct (Req_EM_T (nth i ws 0 * fpow L (nth i data 0) beta) 0) as [Z|Z]; [exfalso; lra|].
    reflexivity.
  Qed.

  (** ** the floor *)
  Lemma clamped_le St minw : 0 < St -> 0 <= minw -> forall l : list R, nonneg l ->
    Rsum (map (clampR St minw) l) <= Rsum l / St + INR (length l) * minw.
  Proof.
    intros HS Hm. induction l as [|x l IH]; intros NN.
    - cbn. unfold Rdiv. lra.
    - inversion NN as [|y z Hx NN']; subst. specialize (IH NN').
      cbn [map Rsum fold_right]. fold (Rsum (map (clampR St minw) l)). fold (Rsum l).
      cbn [length]. rewrite S_INR.
      assert (C : clampR St minw x <= x / St + minw).
      { unfold clampR. destruct (Req_EM_T x 0) as [->|N].
        - unfold Rdiv. lra.
        - assert (0 <= x / St) by (apply Rmult_le_pos; [exact Hx|left; apply Rinv_0_lt_compat; exact HS]).
          apply Rmax_lub; lra. }
      unfold Rdiv in *. lra.
  Qed.

  Lemma c08_clamped_total_le (ws data : list R) (minw beta : R) :
    nonneg ws -> nonneg data -> (length ws = length data)%nat -> 0 < beta -> 0 <= minw ->
    0 < raw_total L ws data beta ->
    clamped_total L ws data minw beta <= 1 + INR (length ws) * minw.
  Proof.
    intros NW ND Hl Hb Hm HS. unfold clamped_total.
    pose proof (clamped_le _ minw HS Hm _ (raw_nonneg ws data beta NW ND Hb)) as X.
    rewrite (@raw_list_length NumR L) in X by (change (T NumR) with R in *; lia).
    fold (raw_total L ws data beta) in X. unfold Rdiv in X. rewrite Rinv_r in X by lra. exact X.
  Qed.

  Lemma c08_floor (ws data : list R) (minw beta : R) (ws' : list R) (i : nat) :
    nonneg ws -> nonneg data -> (length ws = length data)%nat -> 0 < beta -> 0 <= minw ->
    @refine_weights NumR L ws data minw beta = Ok ws' ->
    0 < nth i ws 0 -> 0 < nth i data 0 ->
    minw / (1 + INR (length ws) * minw) <= nth i ws' 0.
  Proof.
    intros NW ND Hl Hb Hm E Hw Hd.
    rewrite (c08_formula ws data minw beta ws' i NW ND Hl Hb E Hw Hd).
    assert (Hr : 0 < nth i ws 0 * fpow L (nth i data 0) beta).
    { apply Rmult_lt_0_compat; [exact Hw|]. destruct HL as (_ & Ppos). apply Ppos. exact Hd. }
    pose proof (S_pos_of_witness ws data beta NW ND Hl Hb i Hr) as HS.
    pose proof (S2_pos ws data minw beta NW ND Hb HS) as HS2.
    pose proof (c08_clamped_total_le ws data minw beta NW ND Hl Hb Hm HS) as HS2'.
    apply Rle_trans with (minw / clamped_total L ws data minw beta).
    - unfold Rdiv. apply Rmult_le_compat_l; [exact Hm|]. apply Rinv_le_contravar; assumption.
    - unfold Rdiv. apply Rmult_le_compat_r; [left; apply Rinv_0_lt_compat; exact HS2|]. apply Rmax_r.
  Qed.

  (** ** one step, both branches; chains of refinements *)
  Lemma c08_step (ws data : list R) (minw beta : R) :
    nonneg ws -> nonneg data -> (length ws = length data)%nat -> 0 < beta ->
    exists ws', @refine_weights NumR L ws data minw beta = Ok ws' /\
      length ws' = length ws /\ nonneg ws' /\ (ws' = ws \/ Rsum ws' = 1) /\
      (forall i, nth i ws 0 = 0 -> nth i ws' 0 = 0).
  Proof.
    intros NW ND Hl Hb.
    assert (Z : forall ws', @refine_weights NumR L ws data minw beta = Ok ws' ->
                forall i, nth i ws 0 = 0 -> nth i ws' 0 = 0).
    { intros ws' E i. apply (c08_disabled_stay ws data minw beta ws' i Hl E). }
    destruct (Req_dec (raw_total L ws data beta) 0) as [Z0|N].
    - exists ws. pose proof (c08_zero_data_id ws data minw beta Hl Z0) as E.
      split; [exact E|]. split; [reflexivity|]. split; [exact NW|]. split; [left; reflexivity|].
      intros i H. exact H.
    - pose proof (S_nonneg ws data beta NW ND Hb) as S0.
      destruct (c08_prob_vector_S ws data minw beta NW ND Hl Hb ltac:(lra)) as (ws' & E & Len & NN & Sum).
      exists ws'. split; [exact E|]. split; [exact Len|]. split; [exact NN|]. split; [right; exact Sum|].
      apply Z. exact E.
  Qed.

  (** successive refinements, one adjustment vector per iteration *)
  Fixpoint refine_chain (ws : list R) (datas : list (list R)) (minw beta : R) : res (list R) :=
    match datas with
    | [] => Ok ws
    | d :: ds => do ws' <- @refine_weights NumR L ws d minw beta; refine_chain ws' ds minw beta
    end.

  Lemma c08_chain : forall datas ws minw beta,
    nonneg ws -> 0 < beta ->
    Forall (fun d => nonneg d /\ length d = length ws) datas ->
    exists ws', refine_chain ws datas minw beta = Ok ws' /\
      length ws' = length ws /\ nonneg ws' /\
      (ws' = ws \/ Rsum ws' = 1) /\ (Rsum ws = 1 -> Rsum ws' = 1) /\
      (forall i, nth i ws 0 = 0 -> nth i ws' 0 = 0).
  Proof.
    induction datas as [|d ds IH]; intros ws minw beta NW Hb HD.
    - exists ws. cbn. repeat split; auto.
    - inversion HD as [|x y (ND & Hl) HD']; subst.
      destruct (c08_step ws d minw beta NW ND (eq_sym Hl) Hb) as (w1 & E1 & L1 & N1 & S1 & Z1).
      assert (HD1 : Forall (fun d0 => nonneg d0 /\ length d0 = length w1) ds).
      { rewrite L1. exact HD'. }
      destruct (IH w1 minw beta N1 Hb HD1) as (w2 & E2 & L2 & N2 & S2 & P2 & Z2).
      exists w2. cbn [refine_chain]. rewrite E1. cbn [bind]. split; [exact E2|].
      split; [rewrite L2; exact L1|]. split; [exact N2|]. split; [|split].
      + destruct S2 as [->|S2]; [|right; exact S2]. destruct S1 as [->|S1]; [left; reflexivity|right; exact S1].
      + intros H1. apply P2. destruct S1 as [->|S1]; [exact H1|exact S1].
      + intros i H. apply Z2. apply Z1. exact H.
  Qed.

  (** ** the initial normalisation refine_weights(user weights, 1...1) used for iteration 0 *)
  Lemma nth_repeat_lt (a : R) : forall n i, (i < n)%nat -> nth i (repeat a n) 0 = a.
  Proof.
    induction n as [|n IH]; intros i Hi; [lia|]. destruct i as [|i]; [reflexivity|].
    cbn [repeat nth]. apply IH. lia.
  Qed.

  Lemma c08_initial_normalisation (ws : list R) (minw beta : R) :
    nonneg ws -> 0 < beta -> (exists i, 0 < nth i ws 0) ->
    exists ws', @refine_weights NumR L ws (repeat (one NumR) (length ws)) minw beta = Ok ws' /\
      length ws' = length ws /\ nonneg ws' /\ Rsum ws' = 1 /\
      (forall i, nth i ws 0 = 0 -> nth i ws' 0 = 0).
  Proof.
    intros NW Hb (i & Hi). change (one NumR) with 1.
    assert (ND : nonneg (repeat 1 (length ws))).
    { apply Forall_forall. intros x Hx. apply repeat_spec in Hx. lra. }
    assert (Hl : length ws = length (repeat 1 (length ws))) by (rewrite repeat_length; reflexivity).
    assert (Hil : (i < length ws)%nat).
    { destruct (Nat.lt_ge_cases i (length ws)) as [H|H]; [exact H|].
      rewrite nth_overflow in Hi by exact H. lra. }
    destruct (c08_prob_vector ws (repeat 1 (length ws)) minw beta NW ND Hl Hb) as (ws' & E & Len & NN & Sum).
    { exists i. rewrite nth_repeat_lt by exact Hil. apply Rmult_lt_0_compat; [exact Hi|].
      destruct HL as (_ & Ppos). apply Ppos. lra. }
    exists ws'. split; [exact E|]. split; [exact Len|]. split; [exact NN|]. split; [exact Sum|].
    intros j. apply (c08_disabled_stay ws (repeat 1 (length ws)) minw beta ws' j Hl E).
  Qed.
End RealRefine.

(* ------------------------------------------------------------------------------------------- *)
(** * (c) IEEE-754 binary formats: a disabled channel stays exactly a zero *)
Section FloatC08.
  Variables prec emax : Z.
  Context (Hprec : FLX.Prec_gt_0 prec) (Hmax : Prec_lt_emax prec emax).
  Notation KB := (NumB prec emax Hprec Hmax).
  Variable L : Libm KB.

  Lemma Beqb_zero_inv (x : binary_float prec emax) :
    Beqb x (B754_zero false) = true -> exists s, x = B754_zero s.
  Proof.
    destruct x as [s|s| |s m e H]; cbn; try discriminate.
    - intros _. exists s. reflexivity.
    - destruct s; discriminate.
    - destruct s; discriminate.
  Qed.

  Lemma Beqb_zero_zero s : Beqb (B754_zero s : binary_float prec emax) (B754_zero false) = true.
  Proof. reflexivity. Qed.

  (* 0 * finite is a zero *)
  Lemma mul_zero_finite (w p : KB) : eqb KB w (zero KB) = true -> isfinite KB p = true ->
    exists s, mul KB w p = B754_zero s.
  Proof.
    intros Hw Hp. apply Beqb_zero_inv in Hw. destruct Hw as (s & ->).
    change (mul KB (B754_zero s) p) with (Bmult mode_NE (B754_zero s) p).
    destruct p as [sp|sp| |sp mp ep Hp']; try discriminate Hp; cbn; eexists; reflexivity.
  Qed.

  (* the second loop skips a zero *)
  Lemma clamp_zero (total minw : KB) s : clamp total minw (B754_zero s : KB) = B754_zero s.
  Proof. unfold clamp. change (eqb KB (B754_zero s) (zero KB)) with (Beqb (B754_zero s : binary_float prec emax) (B754_zero false)). rewrite Beqb_zero_zero. reflexivity. Qed.

  (* 0 / new_sum is a zero unless new_sum is NaN or a zero *)
  Lemma div_zero_ok (ns : KB) s : @isnan KB ns = false -> eqb KB ns (zero KB) = false ->
    exists s', div KB (B754_zero s) ns = B754_zero s'.
  Proof.
    intros Hn Hz. change (div KB (B754_zero s) ns) with (Bdiv mode_NE (B754_zero s) ns).
    destruct ns as [sn|sn| |sn mn en Hn']; cbn.
    - change (Beqb (B754_zero sn : binary_float prec emax) (B754_zero false) = false) in Hz.
      rewrite Beqb_zero_zero in Hz. discriminate Hz.
    - eexists; reflexivity.
    - discriminate Hn.
    - eexists; reflexivity.
  Qed.

  Lemma c08_disabled_stay_float ws data minw beta raw i w d :
    raw_weights L ws data beta = Ok raw ->
    (eqb KB (fold_left (add KB) raw (zero KB)) (zero KB) = false ->
     @isnan KB (new_sum_of raw minw) = false /\ eqb KB (new_sum_of raw minw) (zero KB) = false) ->
    nth_error ws i = Some w -> nth_error data i = Some d ->
    eqb KB w (zero KB) = true -> isfinite KB (fpow L d beta) = true ->
    exists ws' w', refine_weights L ws data minw beta = Ok ws' /\
                   nth_error ws' i = Some w' /\ eqb KB w' (zero KB) = true.
  Proof.
    intros E Hns Ew Ed Hw Hp.
    destruct (eqb KB (fold_left (add KB) raw (zero KB)) (zero KB)) eqn:Z.
    - exists ws, w. split; [apply (c08_zero_total_id L ws data minw beta raw E Z)|]. split; assumption.
    - destruct (Hns eq_refl) as (Hn & Hz).
      destruct (mul_zero_finite w (fpow L d beta) Hw Hp) as (s & Hm).
      destruct (div_zero_ok (new_sum_of raw minw) s Hn Hz) as (s' & Hd).
      eexists. exists (B754_zero s' : KB). split; [apply (refine_nonzero L ws data minw beta raw E Z)|].
      split; [|reflexivity].
      destruct (raw_weights_inv L ws data beta raw E) as (_ & ->).
      rewrite !nth_error_map, (raw_list_nth_error L ws data beta i w d Ew Ed). cbn [option_map].
      rewrite Hm, clamp_zero, Hd. reflexivity.
  Qed.
End FloatC08.

(* non-vacuity of the float statement, in double precision, through the wire representation *)
Definition ex08_L : Libm B64 := @Build_Libm B64 (fun x => x) (fun x _ => x).
Definition ex08_ws : list B64 := [zero B64; one B64; ofN B64 3].
Definition ex08_data : list B64 := [ofN B64 2; ofN B64 4; one B64].
Definition ex08_minw : B64 := div B64 (one B64) (ofN B64 16).
Definition ex08_check : bool :=
  match raw_weights ex08_L ex08_ws ex08_data (one B64), refine_weights ex08_L ex08_ws ex08_data ex08_minw (one B64) with
  | Ok raw, Ok [a; b; c] =>
      negb (eqb B64 (fold_left (add B64) raw (zero B64)) (zero B64)) &&
      negb (@isnan B64 (new_sum_of raw ex08_minw)) && negb (eqb B64 (new_sum_of raw ex08_minw) (zero B64)) &&
      isfinite B64 (fpow ex08_L (ofN B64 2) (one B64)) &&
      eqb B64 a (zero B64) && ltb B64 (zero B64) c && ltb B64 c b
  | _, _ => false
  end.
Lemma c08_example_float : ex08_check = true.
Proof. vm_compute. reflexivity. Qed.

(* ------------------------------------------------------------------------------------------- *)
(** * non-vacuity over the reals: 4 channels, one disabled, one with datum zero, floor active *)
Lemma Rpow0_1 (x : R) : 0 <= x -> Rpow0 x 1 = x.
Proof.
  intros Hx. unfold Rpow0. destruct (Req_EM_T x 0) as [E|E]; [symmetry; exact E|].
  apply Rpower_1. lra.
Qed.

Lemma cons_eqR (a b : R) (l m : list R) : a = b -> l = m -> a :: l = b :: m.
Proof. intros -> ->. reflexivity. Qed.

Definition ex08_wsR : list R := [1/2; 0; 1/4; 1/4].
Definition ex08_dataR : list R := [3; 5; 1; 0].

Lemma ex08_raw : @raw_list NumR LibmR0 ex08_wsR ex08_dataR 1 = [3/2; 0; 1/4; 0].
Proof.
  unfold ex08_wsR, ex08_dataR. cbn [raw_list]. change (fpow LibmR0) with Rpow0.
  rewrite !Rpow0_1 by lra. change (mul NumR) with Rmult.
  repeat (apply cons_eqR; [lra|]). reflexivity.
Qed.

Lemma ex08_clamp a b : a <> 0 -> a / (7/4) = b -> 1/5 <= b -> clampR (7/4) (1/5) a = b.
Proof.
  intros Ha E Hb. unfold clampR. destruct (Req_EM_T a 0) as [Z|Z]; [contradiction|].
  rewrite E. apply Rmax_left. exact Hb.
Qed.

Lemma c08_example_R :
  pow_ok LibmR0 /\ nonneg ex08_wsR /\ nonneg ex08_dataR /\ length ex08_wsR = length ex08_dataR /\
  0 < nth 0 ex08_wsR 0 * fpow LibmR0 (nth 0 ex08_dataR 0) 1 /\
  @refine_weights NumR LibmR0 ex08_wsR ex08_dataR (1/5) 1 = Ok [30/37; 0; 7/37; 0] /\
  (1/5) / (1 + INR (length ex08_wsR) * (1/5)) = 1/9.
Proof.
  split; [exact pow_ok_LibmR0|].
  split; [unfold ex08_wsR; repeat (apply Forall_cons; [lra|]); apply Forall_nil|].
  split; [unfold ex08_dataR; repeat (apply Forall_cons; [lra|]); apply Forall_nil|].
  split; [reflexivity|].
  split; [cbn [nth ex08_wsR ex08_dataR]; change (fpow LibmR0) with Rpow0; rewrite Rpow0_1 by lra; lra|].
  split.
  - assert (S74 : raw_total LibmR0 ex08_wsR ex08_dataR 1 = 7/4).
    { unfold raw_total. rewrite ex08_raw. cbn. lra. }
    assert (CL : map (clampR (7/4) (1/5)) [3/2; 0; 1/4; 0] = [6/7; 0; 1/5; 0]).
    { cbn [map]. rewrite (ex08_clamp (3/2) (6/7)) by lra. rewrite clampR_0.
      assert (X : clampR (7/4) (1/5) (1/4) = 1/5).
      { unfold clampR. destruct (Req_EM_T (1/4) 0) as [Z|Z]; [exfalso; lra|]. apply Rmax_right. lra. }
      rewrite X. reflexivity. }
    assert (S2 : clamped_total LibmR0 ex08_wsR ex08_dataR (1/5) 1 = 37/35).
    { unfold clamped_total. rewrite S74, ex08_raw, CL. cbn. lra. }
    rewrite (refine_R_closed LibmR0 ex08_wsR ex08_dataR (1/5) 1 eq_refl) by (rewrite S74; lra).
    rewrite S2, S74, ex08_raw, CL. cbn [map]. f_equal.
    repeat (apply cons_eqR; [lra|]). reflexivity.
  - cbn [length ex08_wsR]. rewrite !S_INR. cbn [INR]. lra.
Qed.

(* three successive refinements, the middle one without information *)
Lemma c08_example_chain :
  Forall (fun d => nonneg d /\ length d = length ex08_wsR) [ex08_dataR; [0; 0; 0; 0]; ex08_dataR] /\
  exists ws', refine_chain LibmR0 ex08_wsR [ex08_dataR; [0; 0; 0; 0]; ex08_dataR] (1/5) 1 = Ok ws' /\
              Rsum ws' = 1 /\ nth 1 ws' 0 = 0.
Proof.
  assert (N1 : nonneg ex08_dataR) by (unfold ex08_dataR; repeat (apply Forall_cons; [lra|]); apply Forall_nil).
  assert (N0 : nonneg [0; 0; 0; 0]) by (repeat (apply Forall_cons; [lra|]); apply Forall_nil).
  assert (NW : nonneg ex08_wsR) by (unfold ex08_wsR; repeat (apply Forall_cons; [lra|]); apply Forall_nil).
  assert (F : Forall (fun d => nonneg d /\ length d = length ex08_wsR) [ex08_dataR; [0; 0; 0; 0]; ex08_dataR]).
  { repeat (apply Forall_cons; [split; [assumption|reflexivity]|]). apply Forall_nil. }
  split; [exact F|].
  destruct (c08_chain LibmR0 pow_ok_LibmR0 _ ex08_wsR (1/5) 1 NW ltac:(lra) F)
    as (ws' & E & _ & _ & _ & S1 & Z).
  exists ws'. split; [exact E|]. split; [apply S1; unfold ex08_wsR; cbn; lra|apply Z; reflexivity].
Qed.
