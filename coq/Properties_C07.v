(** C07 - the VEGAS grid stays a valid partition and refinement equidistributes importance.
    Statements only (all definitions and proofs in Lemmas_C07.v).

    Everything is about the model's own [refine_pdf], [refine_dim], [icdf1], [icdf] (VegasPdf.v).
    Unless said otherwise the numeric type is K := NumR (ideal real arithmetic) and the libm functions
    are LibmR (ln and Rpower), so "finite" holds for every datum automatically.

    Specification predicates (Lemmas_C07.v):
    - [slice p d]            the bins+1 boundaries of dimension d (the model's [dim_slice] of [pdf_x p]);
    - [row_valid n row]      n+1 entries, entry 0 is 0, entry n is 1, entries non-decreasing;
    - [valid_grid p]         [pdf_wf p] (the flat vector has dims*(bins+1) entries) and every dimension's
                             slice is [row_valid (nbins p)];
    - [strict_grid p]        every dimension's boundaries are strictly increasing (what the C++ documentation
                             asks of a grid; the property text asks for non-decreasing only);
    - [good_data p data]     dims*bins entries, all >= 0;
    - [smoothed p data d]    the model's [smooth] of dimension d's data; [sumR] of it is the "norm";
    - [importances p alpha data d]  the model's [importance LibmR alpha norm] mapped over the smoothed data;
    - [boundary_ok imp g avg k x]   x = g b + th*(g (b+1) - g b) for some old bin b with importance t > 0 and
                             some 0 < th <= 1 such that  (sum of the importances of old bins 0..b-1) + th*t
                             = k*avg;  [equal_share] says this for every new inner boundary k = 1..bins-1
                             with avg = (total importance)/bins > 0: new bin k-1 = [boundary k-1, boundary k]
                             holds exactly avg of the (piecewise linearly spread) importance;
    - [in_bin p d x b w]     b < bins, boundary b <= x <= boundary b+1, w = (width of bin b) * bins;
    - [refine_chain p steps] successive [refine_pdf]s, each with its own alpha and data.

    What is proved
    - zero data: for EVERY Num satisfying four laws about zero ([zero_laws]: 0+0 = 0, 0.5*0 = 0, 0/3 = 0,
      0 == 0) and every libm, [refine_pdf] with all-zero data returns the grid it was given, bit for bit
      (any grid of the right shape, valid or not).  The laws are proved for the reals and - by computation
      through the wire representation - for IEEE float, double and x87 long double (data = +0).  Over the
      reals additionally: a single dimension whose data are all zero keeps its boundaries while the other
      dimensions are refined.
    - [C07_refine_valid]: from a valid grid, bins >= 2, data >= 0 and EVERY real alpha (in particular every
      alpha in [0,3]; alpha >= 0 is not needed) [refine_pdf] returns [Ok] (no out-of-range read: the scan
      never runs past the last bin, never leaves [bin = 0], no fuel exhaustion) and the new grid is valid;
      if the old boundaries are strictly increasing so are the new ones.
    - [C07_uniform_valid]: the grid the library starts from ([uniform_pdf dims bins], bins >= 1) is valid and
      strictly increasing, so the chain theorem applies to every grid the library can ever hold.
    - [C07_importance_well_defined]: when the smoothed norm is non-zero, it is positive and every non-zero
      smoothed entry t has 0 < t/norm < 1 (a datum always spreads to at least two smoothed entries, in fact
      t <= 3/5 norm), hence ln(t/norm) < 0, the base (r-1)/ln r is positive and the importance is the genuine
      power of a positive base - so positivity does not come from the totalised [Rinv 0 = 0] / [ln] of a
      non-positive number.  Zero entries have importance zero.
    - [C07_refine_equal_share]: the equal-share characterisation of every new inner boundary.
    - [C07_refine_chain_valid]: any number of successive refinements keeps the grid valid.
    - [C07_icdf1_in_bin], [C07_icdf_in_bin]: for a valid grid, 1 <= bins < 2^64 and canonical numbers
      u in [0,1) the reported bin is floor(u*bins) < bins, the point lies between that bin's boundaries and
      the weight is the product over the dimensions of bins * bin width.

    - [C07_new_boundary_not_below_bin] (every Num, no hypothesis on rounding) and its IEEE instance
      [C07_new_boundary_not_below_bin_float] (every Flocq binary format): [steps_rel Rel k ...] unfolds the run
      of [redistribute]: each step scans to an old bin bin'-1 >= 0 with lower edge [prev] = [bin_left p d (bin'-1)]
      and produces a boundary y with [Rel y prev].  Thanks to the clamp "if (new_left < previous) new_left =
      previous" (added to the C++ and the model after the correspondence oracle found a valid grid that was
      refined to a decreasing one in floating point) y is never [ltb]-below prev whenever prev is not
      [ltb]-below itself; in IEEE arithmetic that holds for every value, so [Bltb y prev = false] always, and
      for finite y, prev this is prev <= y as real numbers.  Over the reals the clamp is the identity
      (th <= 1), which is why all the other statements are unchanged.

    What is NOT proved
    - u = 1 over the reals: NumR has no number "just below one" ([pred_one NumR = 1]), so the guard for
      u == 1 of the C++ has no real counterpart; with u = 1 the model reads boundary bins+1, which is the next
      dimension's first entry or out of range.  The statements are therefore for u in [0,1).  The float
      fact "every representable u < 1 and the guarded u = 1 give index < bins" is not part of this file.
    - Nothing else about rounding: full monotonicity of the new boundaries under floating-point rounding
      (only "not below the lower edge of its old bin" is proved), absence of overflow in the smoothing sums
      (huge data do produce NaN boundaries), NaN/inf data.  For the IEEE formats only the zero-data identity
      and the clamp theorem are proved.
    - Grids that are valid but not produced by the library (e.g. set by hand with [set_bin_left]) are
      covered as long as they satisfy [valid_grid]; nothing is claimed for invalid grids except the
      zero-data identity. *)
From Coq Require Import ZArith NArith List Reals.
From Flocq Require Import Core BinarySingleNaN.
From HepMC Require Import Num NumB NumR Result VegasPdf Lemmas_C01 Lemmas_C07.
Import ListNotations.
Local Open Scope R_scope.

(* all-zero data leave the grid as it was: every numeric type satisfying the four laws, every libm *)
Theorem C07_refine_zero_data_id_generic :
  forall (K : Num) (L : Libm K) (p : pdf K) (alpha : K) (data : list K),
    @zero_laws K -> (2 <= pdf_bins p)%N ->
    length (pdf_x p) = N.to_nat (pdf_dims p * (pdf_bins p + 1)) ->
    length data = N.to_nat (pdf_dims p * pdf_bins p) ->
    Forall (fun x => x = zero K) data ->
    refine_pdf L p alpha data = Ok p.
Proof. exact c07_refine_zero_data_id_generic. Qed.
Print Assumptions C07_refine_zero_data_id_generic.

(* the laws hold for the reals and for the three IEEE formats *)
Theorem C07_zero_laws_hold : @zero_laws NumR /\ @zero_laws B32 /\ @zero_laws B64 /\ @zero_laws B80.
Proof. exact zero_laws_all. Qed.
Print Assumptions C07_zero_laws_hold.

(* hence: float, double, long double, any libm *)
Theorem C07_refine_zero_data_id_float :
  (forall (L : Libm B32) p alpha data, (2 <= pdf_bins p)%N ->
     length (pdf_x p) = N.to_nat (pdf_dims p * (pdf_bins p + 1)) ->
     length data = N.to_nat (pdf_dims p * pdf_bins p) -> Forall (fun x => x = zero B32) data ->
     refine_pdf L p alpha data = Ok p) /\
  (forall (L : Libm B64) p alpha data, (2 <= pdf_bins p)%N ->
     length (pdf_x p) = N.to_nat (pdf_dims p * (pdf_bins p + 1)) ->
     length data = N.to_nat (pdf_dims p * pdf_bins p) -> Forall (fun x => x = zero B64) data ->
     refine_pdf L p alpha data = Ok p) /\
  (forall (L : Libm B80) p alpha data, (2 <= pdf_bins p)%N ->
     length (pdf_x p) = N.to_nat (pdf_dims p * (pdf_bins p + 1)) ->
     length data = N.to_nat (pdf_dims p * pdf_bins p) -> Forall (fun x => x = zero B80) data ->
     refine_pdf L p alpha data = Ok p).
Proof. exact c07_refine_zero_data_id_float. Qed.
Print Assumptions C07_refine_zero_data_id_float.

(* the reals: same grid, and each dimension's [refine_dim] returns the old boundaries *)
Theorem C07_refine_zero_data_id :
  forall (p : pdf NumR) (alpha : R) (data : list R),
    (2 <= pdf_bins p)%N -> pdf_wf p ->
    length data = N.to_nat (pdf_dims p * pdf_bins p) ->
    Forall (fun x => x = 0) data ->
    refine_pdf LibmR p alpha data = Ok p /\
    forall d, (d < pdf_dims p)%N -> refine_dim LibmR p alpha data d = Ok (slice p d).
Proof. exact c07_refine_zero_data_id. Qed.
Print Assumptions C07_refine_zero_data_id.

(* a dimension whose own data are all zero keeps its boundaries while the others are refined *)
Theorem C07_refine_zero_dim_unchanged :
  forall (p : pdf NumR) (alpha : R) (data : list R),
    valid_grid p -> (2 <= pdf_bins p)%N -> good_data p data ->
    exists p', refine_pdf LibmR p alpha data = Ok p' /\
      forall d, (d < pdf_dims p)%N -> Forall (fun x => x = 0) (dim_slice data d (pdf_bins p)) ->
        slice p' d = slice p d.
Proof. exact c07_refine_zero_dim_unchanged. Qed.
Print Assumptions C07_refine_zero_dim_unchanged.

(* refinement of a valid grid is defined and gives a valid grid of the same shape *)
Theorem C07_refine_valid :
  forall (p : pdf NumR) (alpha : R) (data : list R),
    valid_grid p -> (2 <= pdf_bins p)%N -> good_data p data ->
    exists p', refine_pdf LibmR p alpha data = Ok p' /\
      pdf_bins p' = pdf_bins p /\ pdf_dims p' = pdf_dims p /\ valid_grid p' /\
      (strict_grid p -> strict_grid p').
Proof. exact c07_refine_valid. Qed.
Print Assumptions C07_refine_valid.

(* the importance function is only ever evaluated where it is mathematically defined and positive *)
Theorem C07_importance_well_defined :
  forall (p : pdf NumR) (alpha : R) (data : list R) (d : N),
    valid_grid p -> (2 <= pdf_bins p)%N -> good_data p data -> (d < pdf_dims p)%N ->
    sumR (smoothed p data d) <> 0 ->
    let sm := smoothed p data d in let norm := sumR sm in
    0 < norm /\
    Forall (fun t => 0 <= t /\
              (t = 0 -> importance LibmR alpha norm t = 0) /\
              (t <> 0 -> 0 < t / norm < 1 /\ ln (t / norm) < 0 /\ 0 < (t / norm - 1) / ln (t / norm) /\
                         importance LibmR alpha norm t = Rpower ((t / norm - 1) / ln (t / norm)) alpha /\
                         0 < importance LibmR alpha norm t)) sm.
Proof. exact c07_importance_well_defined. Qed.
Print Assumptions C07_importance_well_defined.

(* each refined bin holds an equal share of the importance *)
Theorem C07_refine_equal_share :
  forall (p : pdf NumR) (alpha : R) (data : list R),
    valid_grid p -> (2 <= pdf_bins p)%N -> good_data p data ->
    exists p', refine_pdf LibmR p alpha data = Ok p' /\
      forall d, (d < pdf_dims p)%N ->
        (sumR (smoothed p data d) = 0 -> slice p' d = slice p d) /\
        (sumR (smoothed p data d) <> 0 ->
           let imp := importances p alpha data d in
           let avg := sumR imp / INR (nbins p) in
           0 < avg /\
           forall k, (1 <= k < nbins p)%nat ->
             exists b t th, nth_error imp b = Some t /\ 0 < t /\ 0 < th <= 1 /\
               nth k (slice p' d) 0 = nth b (slice p d) 0 + th * (nth (S b) (slice p d) 0 - nth b (slice p d) 0) /\
               cum imp b + th * t = INR k * avg).
Proof. exact c07_refine_equal_share. Qed.
Print Assumptions C07_refine_equal_share.

(* any number of successive refinements *)
Theorem C07_refine_chain_valid :
  forall (p : pdf NumR) (steps : list (R * list R)),
    valid_grid p -> (2 <= pdf_bins p)%N -> Forall (fun s => good_data p (snd s)) steps ->
    exists p', refine_chain p steps = Ok p' /\
      pdf_bins p' = pdf_bins p /\ pdf_dims p' = pdf_dims p /\ valid_grid p' /\
      (strict_grid p -> strict_grid p').
Proof. exact c07_refine_chain_valid. Qed.
Print Assumptions C07_refine_chain_valid.

(* the grid every integration starts from *)
Theorem C07_uniform_valid :
  forall (dims bins : N), (1 <= bins)%N ->
    valid_grid (@uniform_pdf NumR dims bins) /\ strict_grid (@uniform_pdf NumR dims bins) /\
    pdf_bins (@uniform_pdf NumR dims bins) = bins /\ pdf_dims (@uniform_pdf NumR dims bins) = dims.
Proof. exact uniform_valid. Qed.
Print Assumptions C07_uniform_valid.

(* one dimension of the inverse CDF *)
Theorem C07_icdf1_in_bin :
  forall (p : pdf NumR) (d : N) (u : R),
    valid_grid p -> (d < pdf_dims p)%N -> (1 <= pdf_bins p < 2 ^ 64)%N -> 0 <= u < 1 ->
    exists x b w, icdf1 p d u = Ok (x, b, w) /\
      ((b < pdf_bins p)%N /\ bnd p d b <= x <= bnd p d (b + 1) /\
       w = (bnd p d (b + 1) - bnd p d b) * IZR (Z.of_N (pdf_bins p))) /\
      Z.of_N b = Zfloor (u * IZR (Z.of_N (pdf_bins p))) /\
      x = bnd p d b + (u * IZR (Z.of_N (pdf_bins p)) - IZR (Z.of_N b)) * (bnd p d (b + 1) - bnd p d b).
Proof. exact c07_icdf1_in_bin. Qed.
Print Assumptions C07_icdf1_in_bin.

(* all dimensions: every coordinate in its reported bin, weight = product of bins * bin width *)
Theorem C07_icdf_in_bin :
  forall (p : pdf NumR) (us : list R),
    valid_grid p -> (1 <= pdf_bins p < 2 ^ 64)%N ->
    length us = N.to_nat (pdf_dims p) -> Forall (fun u => 0 <= u < 1) us ->
    exists xs bs ws, icdf p us = Ok (xs, bs, prodR ws) /\ all_in_bin p 0 xs bs ws /\
      length xs = length us /\ length bs = length us /\ length ws = length us.
Proof. exact c07_icdf_in_bin. Qed.
Print Assumptions C07_icdf_in_bin.

(* every ordered numeric type: a produced boundary is not below the lower edge of its old bin *)
Theorem C07_new_boundary_not_below_bin :
  forall (K : Num) k (p : pdf K) d tmp avg bin tb l,
    redistribute k p d tmp avg bin tb = Ok l ->
    steps_rel (fun y prev => ltb K prev prev = false -> ltb K y prev = false) k p d tmp avg bin tb l /\ length l = k.
Proof. exact c07_new_boundary_not_below_bin. Qed.
Print Assumptions C07_new_boundary_not_below_bin.

(* IEEE formats: unconditional; for finite values, previous <= boundary as real numbers *)
Theorem C07_new_boundary_not_below_bin_float :
  forall prec emax Hprec Hmax k (p : pdf (NumB prec emax Hprec Hmax)) d tmp avg bin tb l,
    redistribute k p d tmp avg bin tb = Ok l ->
    steps_rel (K := NumB prec emax Hprec Hmax)
      (fun y prev => Bltb y prev = false /\
                     (is_finite prev = true -> is_finite y = true -> B2R prev <= B2R y))
      k p d tmp avg bin tb l /\ length l = k.
Proof. exact c07_new_boundary_not_below_bin_float. Qed.
Print Assumptions C07_new_boundary_not_below_bin_float.

(** Non-vacuity: a grid with two dimensions and two bins (boundaries 0, 1/2, 1 and 0, 1/4, 1); data with a
    single non-zero bin in dimension 0 and all-zero data in dimension 1; a chain of three refinements with
    alpha = 3/2, 0, 3; the canonical numbers 0 and 3/4. *)
Example C07_ex_grid_valid : valid_grid ex_p /\ (2 <= pdf_bins ex_p)%N /\ (1 <= pdf_bins ex_p < 2 ^ 64)%N.
Proof. exact (conj ex_valid ex_bins). Qed.
Example C07_ex_grid_strict : strict_grid ex_p.
Proof. exact ex_strict. Qed.
Example C07_ex_data_good : good_data ex_p ex_data /\ good_data ex_p ex_data2.
Proof. exact ex_good. Qed.
Example C07_ex_norm_nonzero : sumR (smoothed ex_p ex_data 0) <> 0 /\ (0 < pdf_dims ex_p)%N.
Proof. exact ex_norm. Qed.
Example C07_ex_zero_dimension :
  (1 < pdf_dims ex_p)%N /\ Forall (fun x => x = 0) (dim_slice ex_data 1 (pdf_bins ex_p)).
Proof. exact ex_zero_dim. Qed.
Example C07_ex_zero_data :
  pdf_wf ex_p /\ length [0; 0; 0; 0] = N.to_nat (pdf_dims ex_p * pdf_bins ex_p) /\
  Forall (fun x : R => x = 0) [0; 0; 0; 0].
Proof. exact ex_zero_data. Qed.
Example C07_ex_chain :
  Forall (fun s : R * list R => good_data ex_p (snd s)) [(3 / 2, ex_data); (0, ex_data2); (3, ex_data)].
Proof. exact ex_chain. Qed.
Example C07_ex_numbers : length [0; 3 / 4] = N.to_nat (pdf_dims ex_p) /\ Forall (fun u => 0 <= u < 1) [0; 3 / 4].
Proof. exact ex_us. Qed.
Example C07_ex_redistribute_R : exists l, @redistribute NumR 1 ex_p 0 [1; 1] 1 0%N 0 = Ok l /\ length l = 1%nat.
Proof. exact ex_redistribute_R. Qed.
Example C07_ex_redistribute_B64 :
  exists l, @redistribute B64 1 (@uniform_pdf B64 1 2) 0 [one B64; one B64] (one B64) 0 (zero B64) = Ok l.
Proof. exact ex_redistribute_B64. Qed.
