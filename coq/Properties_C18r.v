(** C18r - second sentence of C18: "When the built-in callback writes checkpoints to a file, then at every
    instant at which the process can be killed the file, if it exists, is a complete checkpoint: either
    the one of the previous iteration or the new one.  Resuming from it leads to the same final result as
    the uninterrupted run."  Statements only (proofs in Lemmas_C18r.v).  This file composes
    Properties_C18.v (file-system model Fs.v), Properties_C05.v (text <-> checkpoint) and
    Properties_C03.v (resume = never stopping); nothing new is assumed.

    THE LINK.  The "bytes" of the file-system model Fs.v are the tokens of Codec.v: a file content is a
    [list (tok K)].  For a run [X_run .. cb cs c0 idx = Ok (c, idx', ls)] (X = plain, vegas, mc; every
    [Num] K, libm, random stream, distributions, integrand, channel map, calls list, callback, start
    checkpoint) the checkpoints handed to the callback are [map il_chk ls] (C12), and the file operations
    of the whole run are [run_writes filename texts] where [texts] is ANY list of lists of pieces whose
    concatenations are the serialisations, [map concat texts = map (ser_X digits10) (map il_chk ls)]
    (for VEGAS, whose writer is partial: [map (fun ch => Ok (concat ch)) texts = map (ser_vchk digits10) ..];
    [C18r_texts_defined_vegas]: such texts exist for every VEGAS run, because every checkpoint a callback is
    handed has results).  Previous file-system content [s], file name and cutting are arbitrary.

    WHAT IS PROVED.
    0. About Fs.v, any byte type: [C18r_crash_points] - the states in which a kill can leave the file system
       during a whole run are exactly: the initial state, and the crash states of invocation k+1
       (k < number of invocations) started in the state the k completed invocations left;
       [C18r_file_after_invocations] - what the final name holds after k completed invocations.
    1. [C18r_file_is_a_checkpoint_X]: in every crash state of the run's writes the file holds what it held
       before the run, or the complete text of the checkpoint of some performed iteration j < length ls
       ([nth_error ls j = Some l], text of [il_chk l]).  [C18r_file_is_a_checkpoint_precise_X]: if the kill
       hits during invocation k+1 (k completed invocations, k < length ls) the file holds the text of the
       k-th checkpoint (k = 0: the content before the run) - "the one of the previous iteration" - or of the
       (k+1)-th - "the new one".  (The run hypothesis of these theorems only says what [ls] is.)
    2. [C18r_resume_after_crash_X]: if [l] is the (j+1)-th log entry, the text of [il_chk l] can be read back
       ([deser rd_X]) and running the remaining calls [rem] from the re-read checkpoint [cj], with the
       integrand call counter [idxj] the original run had at that point (characterised by
       [X_run (firstn (S j) cs) c0 idx = Ok (il_chk l, idxj, firstn (S j) ls)]), succeeds and ends with
       the same integrand-call count in a checkpoint with the same text as the final checkpoint [c] of the
       uninterrupted run (PLAIN: in [c] itself, with the same log entries; VEGAS / multi-channel: textually
       identical checkpoint, [vchk_eqv] / [mchk_eqv], pairwise related log entries; VEGAS: and [c] has a
       text).  [rem] is either the rest of the calls the uninterrupted run performed,
       [skipn (S j) (firstn (length ls) cs)] (no side condition), or the rest of the requested calls
       [skipn (S j) cs] provided the callback did not stop the run exactly at iteration j+1 with calls left
       ([S j < length ls \/ length ls = length cs], the side condition of [C03_run_split]: a resumed
       process does not re-ask the callback about the checkpoint it loaded, so if the uninterrupted run was
       stopped by the callback right there, resuming with the unperformed calls would do more than it did).
       Hypotheses as in [C03_resume_any_composition_X]: the (prepared) initial checkpoint is well formed
       ([wf_pchk c0] / [wf_vchk (vchk_dimensions c0 d)] / [wf_mchk c0]); VEGAS / multi-channel: the
       callback answers equally on textually identical checkpoints (the built-in decision does:
       [C03_builtin_callback_respects_text]).
    3. [C18r_kill_and_resume_X]: 1 and 2 composed - for EVERY crash state of the run's writes: the file is
       untouched, or it holds a text [content] that is the text of the (j+1)-th checkpoint, reading it back
       succeeds, and running the remaining performed calls from the result ends in a checkpoint with the
       text of the uninterrupted run's final checkpoint and the same integrand-call count.

    NOT PROVED / ASSUMED.  (a) The POSIX semantics modelled by Fs.v and the tie of [run_writes] to the real
    system-call sequence (see Properties_C18.v: checked by the interposer on every run, not proved).
    (b) The decimal layer: text = token list; numbers <-> decimal digits is C05 part A.  (c) As in C03 the
    integrand's call counter is not part of the checkpoint; the resumed run is given the counter of the
    interrupted run at the cut.  (d) If the file is untouched (kill before the first rename) it holds
    whatever it held before the run; nothing is said about that content.  (e) That the callback writes
    [ser_X] of exactly the checkpoint it is handed is the hypothesis on [texts], not a theorem
    (C03's remark (4)). *)
From Coq Require Import String ZArith NArith Bool List.
From HepMC Require Import Num NumB Result Accum VegasPdf Discrete MultiChannel Iter Chkpt Callback Run Codec Fs
  Lemmas_Run Lemmas_C05 Lemmas_C12 Lemmas_C19 Lemmas_C18 Lemmas_C03 Lemmas_C18r.
Import ListNotations.

(** 0. where a kill can hit a run (Fs.v, any byte type) *)
Theorem C18r_crash_points : forall (A : Type) (filename : path) (texts : list (list (list A))) (s s' : fs A),
  In s' (crash_states A s (run_writes A filename texts)) <->
  s' = s \/ exists k, k < List.length texts /\
    In s' (crash_states A (run_ops A s (run_writes A filename (firstn k texts)))
                          (write_chkpt_ops A filename (nth k texts []))).
Proof. exact crash_points. Qed.
Print Assumptions C18r_crash_points.

Theorem C18r_file_after_invocations : forall (A : Type) (s : fs A) (filename : path) (texts : list (list (list A))) k,
  k <= List.length texts ->
  lookup A (run_ops A s (run_writes A filename (firstn k texts))) filename =
  match k with 0 => lookup A s filename | S k' => option_map (@List.concat A) (nth_error texts k') end.
Proof. exact lookup_state_after. Qed.
Print Assumptions C18r_file_after_invocations.

(** 1. the file is a complete checkpoint of the run *)
Theorem C18r_file_is_a_checkpoint_plain : forall (K : Num) strm ps f (digits10 : string) d cb cs (c0 : pchk K) idx c idx' ls
    (filename : path) texts (s s' : fs (tok K)),
  plain_run strm ps f d cb cs c0 idx = Ok (c, idx', ls) ->
  map (@List.concat _) texts = map (ser_pchk digits10) (map il_chk ls) ->
  In s' (crash_states (tok K) s (run_writes (tok K) filename texts)) ->
  lookup (tok K) s' filename = lookup (tok K) s filename \/
  exists j l, nth_error ls j = Some l /\ lookup (tok K) s' filename = Some (ser_pchk digits10 (il_chk l)).
Proof. exact (@run_file_is_a_checkpoint_plain). Qed.
Print Assumptions C18r_file_is_a_checkpoint_plain.

Theorem C18r_file_is_a_checkpoint_vegas : forall (K : Num) (L : Libm K) strm ps f (digits10 : string) d cb cs (c0 : vchk K) idx c idx' ls
    (filename : path) texts (s s' : fs (tok K)),
  vegas_run L strm ps f d cb cs c0 idx = Ok (c, idx', ls) ->
  map (fun chunks => Ok (List.concat chunks)) texts = map (ser_vchk digits10) (map il_chk ls) ->
  In s' (crash_states (tok K) s (run_writes (tok K) filename texts)) ->
  lookup (tok K) s' filename = lookup (tok K) s filename \/
  exists j l t, nth_error ls j = Some l /\ ser_vchk digits10 (il_chk l) = Ok t /\ lookup (tok K) s' filename = Some t.
Proof. exact (@run_file_is_a_checkpoint_vegas). Qed.
Print Assumptions C18r_file_is_a_checkpoint_vegas.

Theorem C18r_file_is_a_checkpoint_multi_channel : forall (K : Num) (L : Libm K) strm ps f mp (digits10 : string) d n cb cs (c0 : mchk K)
    idx c idx' ls (filename : path) texts (s s' : fs (tok K)),
  mc_run L strm ps f mp d n cb cs c0 idx = Ok (c, idx', ls) ->
  map (@List.concat _) texts = map (ser_mchk digits10) (map il_chk ls) ->
  In s' (crash_states (tok K) s (run_writes (tok K) filename texts)) ->
  lookup (tok K) s' filename = lookup (tok K) s filename \/
  exists j l, nth_error ls j = Some l /\ lookup (tok K) s' filename = Some (ser_mchk digits10 (il_chk l)).
Proof. exact (@run_file_is_a_checkpoint_mc). Qed.
Print Assumptions C18r_file_is_a_checkpoint_multi_channel.

(* k = number of completed callback invocations when the kill hits *)
Theorem C18r_file_is_a_checkpoint_precise_plain : forall (K : Num) strm ps f (digits10 : string) d cb cs (c0 : pchk K) idx c idx' ls
    (filename : path) texts (s s' : fs (tok K)),
  plain_run strm ps f d cb cs c0 idx = Ok (c, idx', ls) ->
  map (@List.concat _) texts = map (ser_pchk digits10) (map il_chk ls) ->
  In s' (crash_states (tok K) s (run_writes (tok K) filename texts)) ->
  s' = s \/
  exists k, k < List.length ls /\
    In s' (crash_states (tok K) (run_ops (tok K) s (run_writes (tok K) filename (firstn k texts)))
                                (write_chkpt_ops (tok K) filename (nth k texts []))) /\
    (match k with
     | 0 => lookup (tok K) s' filename = lookup (tok K) s filename
     | S k' => exists l, nth_error ls k' = Some l /\ lookup (tok K) s' filename = Some (ser_pchk digits10 (il_chk l))
     end \/
     exists l, nth_error ls k = Some l /\ lookup (tok K) s' filename = Some (ser_pchk digits10 (il_chk l))).
Proof. exact (@run_file_is_a_checkpoint_precise_plain). Qed.
Print Assumptions C18r_file_is_a_checkpoint_precise_plain.

Theorem C18r_file_is_a_checkpoint_precise_vegas : forall (K : Num) (L : Libm K) strm ps f (digits10 : string) d cb cs (c0 : vchk K)
    idx c idx' ls (filename : path) texts (s s' : fs (tok K)),
  vegas_run L strm ps f d cb cs c0 idx = Ok (c, idx', ls) ->
  map (fun chunks => Ok (List.concat chunks)) texts = map (ser_vchk digits10) (map il_chk ls) ->
  In s' (crash_states (tok K) s (run_writes (tok K) filename texts)) ->
  s' = s \/
  exists k, k < List.length ls /\
    In s' (crash_states (tok K) (run_ops (tok K) s (run_writes (tok K) filename (firstn k texts)))
                                (write_chkpt_ops (tok K) filename (nth k texts []))) /\
    (match k with
     | 0 => lookup (tok K) s' filename = lookup (tok K) s filename
     | S k' => exists l t, nth_error ls k' = Some l /\ ser_vchk digits10 (il_chk l) = Ok t /\
                           lookup (tok K) s' filename = Some t
     end \/
     exists l t, nth_error ls k = Some l /\ ser_vchk digits10 (il_chk l) = Ok t /\ lookup (tok K) s' filename = Some t).
Proof. exact (@run_file_is_a_checkpoint_precise_vegas). Qed.
Print Assumptions C18r_file_is_a_checkpoint_precise_vegas.

Theorem C18r_file_is_a_checkpoint_precise_multi_channel : forall (K : Num) (L : Libm K) strm ps f mp (digits10 : string) d n cb cs
    (c0 : mchk K) idx c idx' ls (filename : path) texts (s s' : fs (tok K)),
  mc_run L strm ps f mp d n cb cs c0 idx = Ok (c, idx', ls) ->
  map (@List.concat _) texts = map (ser_mchk digits10) (map il_chk ls) ->
  In s' (crash_states (tok K) s (run_writes (tok K) filename texts)) ->
  s' = s \/
  exists k, k < List.length ls /\
    In s' (crash_states (tok K) (run_ops (tok K) s (run_writes (tok K) filename (firstn k texts)))
                                (write_chkpt_ops (tok K) filename (nth k texts []))) /\
    (match k with
     | 0 => lookup (tok K) s' filename = lookup (tok K) s filename
     | S k' => exists l, nth_error ls k' = Some l /\ lookup (tok K) s' filename = Some (ser_mchk digits10 (il_chk l))
     end \/
     exists l, nth_error ls k = Some l /\ lookup (tok K) s' filename = Some (ser_mchk digits10 (il_chk l))).
Proof. exact (@run_file_is_a_checkpoint_precise_mc). Qed.
Print Assumptions C18r_file_is_a_checkpoint_precise_multi_channel.

(* the hypothesis on [texts] is satisfiable for every VEGAS run: every checkpoint handed to the callback has a text *)
Theorem C18r_texts_defined_vegas : forall (K : Num) (L : Libm K) strm ps f (digits10 : string) d cb cs (c0 : vchk K) idx c idx' ls,
  vegas_run L strm ps f d cb cs c0 idx = Ok (c, idx', ls) ->
  exists sers : list (list (tok K)), map (@Ok (list (tok K))) sers = map (ser_vchk digits10) (map il_chk ls).
Proof. exact (@vegas_texts_defined). Qed.
Print Assumptions C18r_texts_defined_vegas.

(** 2. resuming from the text of the (j+1)-th checkpoint *)
Theorem C18r_resume_after_crash_plain : forall (K : Num) strm ps f (digits10 : string) d cb cs (c0 : pchk K) idx c idx' ls j l rem,
  plain_run strm ps f d cb cs c0 idx = Ok (c, idx', ls) ->
  wf_pchk c0 = true ->
  nth_error ls j = Some l ->
  (rem = skipn (S j) (firstn (List.length ls) cs) \/
   rem = skipn (S j) cs /\ (S j < List.length ls \/ List.length ls = List.length cs)) ->
  exists idxj cj,
    plain_run strm ps f d cb (firstn (S j) cs) c0 idx = Ok (il_chk l, idxj, firstn (S j) ls) /\
    deser rd_pchk (ser_pchk digits10 (il_chk l)) = Ok cj /\
    plain_run strm ps f d cb rem cj idxj = Ok (c, idx', skipn (S j) ls).
Proof. exact (@resume_after_crash_plain). Qed.
Print Assumptions C18r_resume_after_crash_plain.

Theorem C18r_resume_after_crash_vegas : forall (K : Num) (L : Libm K) strm ps f (digits10 : string) d cb cs (c0 : vchk K) idx c idx' ls j l rem,
  (forall x y, vchk_eqv x y -> cb x = cb y) ->
  vegas_run L strm ps f d cb cs c0 idx = Ok (c, idx', ls) ->
  wf_vchk (vchk_dimensions c0 d) = true ->
  nth_error ls j = Some l ->
  (rem = skipn (S j) (firstn (List.length ls) cs) \/
   rem = skipn (S j) cs /\ (S j < List.length ls \/ List.length ls = List.length cs)) ->
  exists t idxj cj c' ls',
    ser_vchk digits10 (il_chk l) = Ok t /\
    vegas_run L strm ps f d cb (firstn (S j) cs) c0 idx = Ok (il_chk l, idxj, firstn (S j) ls) /\
    deser rd_vchk t = Ok cj /\
    vegas_run L strm ps f d cb rem cj idxj = Ok (c', idx', ls') /\
    ser_vchk digits10 c' = ser_vchk digits10 c /\ (exists tc, ser_vchk digits10 c = Ok tc) /\
    vchk_eqv c c' /\ Forall2 (log_eqv _ _ vchk_eqv) (skipn (S j) ls) ls'.
Proof. exact (@resume_after_crash_vegas). Qed.
Print Assumptions C18r_resume_after_crash_vegas.

Theorem C18r_resume_after_crash_multi_channel : forall (K : Num) (L : Libm K) strm ps f mp (digits10 : string) d n cb cs (c0 : mchk K)
    idx c idx' ls j l rem,
  (forall x y, mchk_eqv x y -> cb x = cb y) ->
  mc_run L strm ps f mp d n cb cs c0 idx = Ok (c, idx', ls) ->
  wf_mchk c0 = true ->
  nth_error ls j = Some l ->
  (rem = skipn (S j) (firstn (List.length ls) cs) \/
   rem = skipn (S j) cs /\ (S j < List.length ls \/ List.length ls = List.length cs)) ->
  exists idxj cj c' ls',
    mc_run L strm ps f mp d n cb (firstn (S j) cs) c0 idx = Ok (il_chk l, idxj, firstn (S j) ls) /\
    deser rd_mchk (ser_mchk digits10 (il_chk l)) = Ok cj /\
    mc_run L strm ps f mp d n cb rem cj idxj = Ok (c', idx', ls') /\
    ser_mchk digits10 c' = ser_mchk digits10 c /\
    mchk_eqv c c' /\ Forall2 (log_eqv _ _ mchk_eqv) (skipn (S j) ls) ls'.
Proof. exact (@resume_after_crash_mc). Qed.
Print Assumptions C18r_resume_after_crash_multi_channel.

(** 3. composed: whatever a kill leaves in the file can be resumed to the uninterrupted run's result *)
Theorem C18r_kill_and_resume_plain : forall (K : Num) strm ps f (digits10 : string) d cb cs (c0 : pchk K) idx c idx' ls
    (filename : path) texts (s s' : fs (tok K)),
  plain_run strm ps f d cb cs c0 idx = Ok (c, idx', ls) ->
  wf_pchk c0 = true ->
  map (@List.concat _) texts = map (ser_pchk digits10) (map il_chk ls) ->
  In s' (crash_states (tok K) s (run_writes (tok K) filename texts)) ->
  lookup (tok K) s' filename = lookup (tok K) s filename \/
  exists j l content idxj cj,
    nth_error ls j = Some l /\ lookup (tok K) s' filename = Some content /\
    content = ser_pchk digits10 (il_chk l) /\
    plain_run strm ps f d cb (firstn (S j) cs) c0 idx = Ok (il_chk l, idxj, firstn (S j) ls) /\
    deser rd_pchk content = Ok cj /\
    plain_run strm ps f d cb (skipn (S j) (firstn (List.length ls) cs)) cj idxj = Ok (c, idx', skipn (S j) ls).
Proof. exact (@kill_and_resume_plain). Qed.
Print Assumptions C18r_kill_and_resume_plain.

Theorem C18r_kill_and_resume_vegas : forall (K : Num) (L : Libm K) strm ps f (digits10 : string) d cb cs (c0 : vchk K) idx c idx' ls
    (filename : path) texts (s s' : fs (tok K)),
  (forall x y, vchk_eqv x y -> cb x = cb y) ->
  vegas_run L strm ps f d cb cs c0 idx = Ok (c, idx', ls) ->
  wf_vchk (vchk_dimensions c0 d) = true ->
  map (fun chunks => Ok (List.concat chunks)) texts = map (ser_vchk digits10) (map il_chk ls) ->
  In s' (crash_states (tok K) s (run_writes (tok K) filename texts)) ->
  lookup (tok K) s' filename = lookup (tok K) s filename \/
  exists j l content idxj cj c' ls',
    nth_error ls j = Some l /\ lookup (tok K) s' filename = Some content /\
    ser_vchk digits10 (il_chk l) = Ok content /\
    vegas_run L strm ps f d cb (firstn (S j) cs) c0 idx = Ok (il_chk l, idxj, firstn (S j) ls) /\
    deser rd_vchk content = Ok cj /\
    vegas_run L strm ps f d cb (skipn (S j) (firstn (List.length ls) cs)) cj idxj = Ok (c', idx', ls') /\
    ser_vchk digits10 c' = ser_vchk digits10 c /\ (exists tc, ser_vchk digits10 c = Ok tc).
Proof. exact (@kill_and_resume_vegas). Qed.
Print Assumptions C18r_kill_and_resume_vegas.

Theorem C18r_kill_and_resume_multi_channel : forall (K : Num) (L : Libm K) strm ps f mp (digits10 : string) d n cb cs (c0 : mchk K)
    idx c idx' ls (filename : path) texts (s s' : fs (tok K)),
  (forall x y, mchk_eqv x y -> cb x = cb y) ->
  mc_run L strm ps f mp d n cb cs c0 idx = Ok (c, idx', ls) ->
  wf_mchk c0 = true ->
  map (@List.concat _) texts = map (ser_mchk digits10) (map il_chk ls) ->
  In s' (crash_states (tok K) s (run_writes (tok K) filename texts)) ->
  lookup (tok K) s' filename = lookup (tok K) s filename \/
  exists j l content idxj cj c' ls',
    nth_error ls j = Some l /\ lookup (tok K) s' filename = Some content /\
    content = ser_mchk digits10 (il_chk l) /\
    mc_run L strm ps f mp d n cb (firstn (S j) cs) c0 idx = Ok (il_chk l, idxj, firstn (S j) ls) /\
    deser rd_mchk content = Ok cj /\
    mc_run L strm ps f mp d n cb (skipn (S j) (firstn (List.length ls) cs)) cj idxj = Ok (c', idx', ls') /\
    ser_mchk digits10 c' = ser_mchk digits10 c.
Proof. exact (@kill_and_resume_mc). Qed.
Print Assumptions C18r_kill_and_resume_multi_channel.

(** Non-vacuity: the double-precision runs of Properties_C03.v (2 PLAIN iterations with the built-in callback,
    3 VEGAS iterations whose grid moves, 3 multi-channel iterations) satisfy all hypotheses; the last text
    is written in two pieces (cut after 5 tokens), the others in one; the file system is empty before.
    A kill can leave the first checkpoint in the file (so the second disjunct is inhabited), and whatever
    it leaves - nothing, or the text of some iteration - reading it back and running the remaining calls
    ends in (a checkpoint with the text of) the uninterrupted run's final checkpoint. *)
Example C18r_example_plain : exists c idx' l0 l1,
  plain_run ex_strm [] ex_f 1 (cb_plain (zero B64)) [3; 3]%N exr_plain_c0 0 = Ok (c, idx', [l0; l1]) /\
  wf_pchk exr_plain_c0 = true /\
  map (@List.concat _) (ex18r_texts2 (ser_pchk "17" (il_chk l0)) (ser_pchk "17" (il_chk l1)))
    = map (ser_pchk "17") (map il_chk [l0; l1]) /\
  (exists s', In s' (crash_states _ [] (run_writes _ "chk"%string
                       (ex18r_texts2 (ser_pchk "17" (il_chk l0)) (ser_pchk "17" (il_chk l1))))) /\
              lookup _ s' "chk"%string = Some (ser_pchk "17" (il_chk l0))) /\
  (forall s', In s' (crash_states _ [] (run_writes _ "chk"%string
                       (ex18r_texts2 (ser_pchk "17" (il_chk l0)) (ser_pchk "17" (il_chk l1))))) ->
     lookup _ s' "chk"%string = None \/
     exists j l idxj cj,
       nth_error [l0; l1] j = Some l /\ lookup _ s' "chk"%string = Some (ser_pchk "17" (il_chk l)) /\
       deser rd_pchk (ser_pchk "17" (il_chk l)) = Ok cj /\
       plain_run ex_strm [] ex_f 1 (cb_plain (zero B64)) (skipn (S j) [3; 3]%N) cj idxj
         = Ok (c, idx', skipn (S j) [l0; l1])).
Proof. exact ex18r_plain. Qed.

Example C18r_example_vegas : exists c idx' l0 l1 l2 t0 t1 t2,
  vegas_run ex19_L ex19_strm [] ex19_f 1 (fun _ => true) [8; 8; 8]%N exr_vegas_c0 0 = Ok (c, idx', [l0; l1; l2]) /\
  wf_vchk (vchk_dimensions exr_vegas_c0 1) = true /\
  map (fun chunks => Ok (List.concat chunks)) (ex18r_texts3 t0 t1 t2)
    = map (ser_vchk "17") (map il_chk [l0; l1; l2]) /\
  (exists s', In s' (crash_states _ [] (run_writes _ "chk"%string (ex18r_texts3 t0 t1 t2))) /\
              lookup _ s' "chk"%string = Some t0) /\
  (forall s', In s' (crash_states _ [] (run_writes _ "chk"%string (ex18r_texts3 t0 t1 t2))) ->
     lookup _ s' "chk"%string = None \/
     exists j l content idxj cj c' ls',
       nth_error [l0; l1; l2] j = Some l /\ lookup _ s' "chk"%string = Some content /\
       ser_vchk "17" (il_chk l) = Ok content /\
       deser rd_vchk content = Ok cj /\
       vegas_run ex19_L ex19_strm [] ex19_f 1 (fun _ => true) (skipn (S j) [8; 8; 8]%N) cj idxj = Ok (c', idx', ls') /\
       ser_vchk "17" c' = ser_vchk "17" c /\ (exists tc, ser_vchk "17" c = Ok tc)).
Proof. exact ex18r_vegas. Qed.

Example C18r_example_multi_channel : exists c idx' l0 l1 l2,
  mc_run ex19_L ex19_strm [] ex19_f exr_mp 1 2 (fun _ => true) [4; 4; 4]%N exr_mc_c0 0 = Ok (c, idx', [l0; l1; l2]) /\
  wf_mchk exr_mc_c0 = true /\
  map (@List.concat _) (ex18r_texts3 (ser_mchk "17" (il_chk l0)) (ser_mchk "17" (il_chk l1)) (ser_mchk "17" (il_chk l2)))
    = map (ser_mchk "17") (map il_chk [l0; l1; l2]) /\
  (exists s', In s' (crash_states _ [] (run_writes _ "chk"%string
                (ex18r_texts3 (ser_mchk "17" (il_chk l0)) (ser_mchk "17" (il_chk l1)) (ser_mchk "17" (il_chk l2))))) /\
              lookup _ s' "chk"%string = Some (ser_mchk "17" (il_chk l0))) /\
  (forall s', In s' (crash_states _ [] (run_writes _ "chk"%string
                (ex18r_texts3 (ser_mchk "17" (il_chk l0)) (ser_mchk "17" (il_chk l1)) (ser_mchk "17" (il_chk l2))))) ->
     lookup _ s' "chk"%string = None \/
     exists j l idxj cj c' ls',
       nth_error [l0; l1; l2] j = Some l /\ lookup _ s' "chk"%string = Some (ser_mchk "17" (il_chk l)) /\
       deser rd_mchk (ser_mchk "17" (il_chk l)) = Ok cj /\
       mc_run ex19_L ex19_strm [] ex19_f exr_mp 1 2 (fun _ => true) (skipn (S j) [4; 4; 4]%N) cj idxj = Ok (c', idx', ls') /\
       ser_mchk "17" c' = ser_mchk "17" c).
Proof. exact ex18r_mc. Qed.
